#!/usr/bin/env python3
"""Regenerates MANIFEST.json from the table below (kept next to the checks so both change together)."""
import json
CHECKS = {
 "C09": dict(engine="refcache", category="exploration", design="§3 C09",
   technique="runtime monitor: lock-step reference model over recorded cache operations (exhaustive short sequences + PRNG sequences)",
   text="Every operation sequence up to length 5/6 over a 9-op alphabet (two capacities) plus tens of thousands to millions of PRNG sequences are executed on the real cache.Cache next to a reference cache; after every operation the exported fields must equal the model (or be unchanged after a rejection). Held-on-observed, not a proof.",
   note="Trusted: the 60-line reference cache and its reading of the cache.Memory contract; ReservedSize of dead symbols and Pop on the single top frame are don't-care."),
}
NOT_YET = {}
ALL = ["C%02d" % i for i in range(1, 21)]
m = {
 "version": 1,
 "setup_cmd": "cd /verif && ./setup.sh",
 "hooks": {
   "guard": "verif",
   "enable": "go build -tags verif (done by /verif/run.sh for every check)",
   "baseline_off_cmd": "/verif/baseline.sh",
   "source_commits": [],
   "add_only": True,
 },
 "engines": [],
 "checks": [],
 "notes": "Technique family: runtime monitoring. Every check builds the harness (/verif/harness, replace => /repo) from /repo's working tree and runs the real code under generated workloads while a monitor decides. Exit 0 held / 1 VIOLATION / 2 INCONCLUSIVE. KNOWN_FINDINGS.txt lists repaired (fixed:) and recorded (known:) defects.",
 "not_applicable": [],
}
import os, subprocess
try:
    hooks = open('/verif/HOOK_COMMITS.txt').read().split()
except Exception:
    hooks = []
m["hooks"]["source_commits"] = hooks
engines = {}
for pid in ALL:
    c = CHECKS.get(pid)
    if not c:
        m["not_applicable"].append({"property_id": pid, "reason": NOT_YET.get(pid, "check not built yet in this session (runtime monitor designed in DESIGN.md §3, not registered until it runs clean)")})
        continue
    engines.setdefault(c["engine"], []).append(pid)
    m["checks"].append({
      "property_id": pid,
      "quick_cmd": "./run.sh %s quick" % pid,
      "thorough_cmd": "./run.sh %s thorough" % pid,
      "evidence_file": "/verif/evidence/%s.json" % pid,
      "replay_cmd_template": "./run.sh %s quick --replay {path}" % pid,
      "engine": c["engine"],
      "level_claimed": {"category": c["category"], "text": c["text"], "design_ref": c["design"]},
      "level_note": c["note"],
      "technique": c["technique"],
    })
for e, ps in engines.items():
    m["engines"].append({"name": e, "path": "/verif/harness", "serves_properties": ps, "kind_free_text": "Go harness package verif/harness/checks, run through /verif/run.sh"})
json.dump(m, open('/verif/MANIFEST.json', 'w'), indent=1)
print("checks:", [c["property_id"] for c in m["checks"]], "not_applicable:", len(m["not_applicable"]))
