#!/usr/bin/env python3
"""Regenerates MANIFEST.json from the table below (kept next to the checks so both change together)."""
import json
CHECKS = {
 "C09": dict(engine="refcache", category="exploration", design="§3 C09",
   technique="runtime monitor: lock-step reference model over recorded cache operations (exhaustive short sequences + PRNG sequences, including hand-over of the cache to a flushing and a non-flushing persister and capacity changes on the live cache); WithCacheSize called for its effect",
   text="Every operation sequence up to length 5/6 over a 9-op alphabet (two capacities) plus tens of thousands to millions of PRNG sequences are executed on the real cache.Cache next to a reference cache; after every operation the exported fields must equal the model (or be unchanged after a rejection). Held-on-observed, not a proof.",
   note="Trusted: the 60-line reference cache and its reading of the cache.Memory contract; ReservedSize of dead symbols and Pop on the single top frame are don't-care."),
 "C14": dict(engine="codec", category="exploration", design="§3 C14",
   technique="runtime monitor: round-trip and three-way decoder agreement over enumerated argument domains (all uint32 in thorough) and PRNG programs, with reused handlers and with the input buffer overwritten after decoding (aliasing oracle), every legal integer form through the encoder, and replaced handler fields; MenuProcessor asked to encode twice",
   text="The library's encoders (vm.NewLine, asm.writeSize/writeSym through the verif hook) are run over every symbol length 1..255, every uint32 (thorough) or all width boundaries plus 2M values (quick), and PRNG programs; each encoding is decoded by the VM's Parse* functions, the disassembler and an independent harness decoder, and must come back identical with exact byte consumption; asm.Parse(ToString(b)) must reproduce b.",
   note="Trusted: the harness decoder written from the format description. Programs outside the assembler's own grammar skip the re-assembly leg."),
 "C15": dict(engine="codec", category="exploration", design="§3 C15",
   technique="runtime monitor: strict-validator oracle + recover() + differential over-read detection (three buffer presentations plus a listing into a writer that fails) on exhaustively enumerated short inputs and all single-byte mutants/truncations of valid programs; Vm.Run on a new state and on the state after a failed load; the dev/disasm command built from the tree and run as a process on valid, damaged and text-looking files; Go coverage-guided fuzzing on the same oracle in the thorough tier; one long-lived ParseHandler handed every input in a reused buffer",
   text="Every byte string up to length 3 (thorough; quick a subset covering every in-range opcode), all strings of length 4..6 over an 18-byte alphabet, and every truncation and single-byte substitution of PRNG programs are fed to ParseAll/ToString, the VM's Parse* chain and Vm.Run; a panic, success on input the validator classifies as malformed, or a result that depends on bytes beyond the slice is a violation.",
   note="Trusted: the strict validator. NOOP (opcode 0) and rejection of complete-valid input are don't-care. Vm.Run: runtime-error panics only."),
 "C16": dict(engine="codec", category="exploration", design="§3 C16",
   technique="runtime monitor: generated assembly sources (AST printed to text) assembled by asm.Parse, output decoded by an independent decoder and compared with the AST; concurrent assembly compared with sequential; the dev/asm command built from the tree and run as a process with its flag preprocessor, reading a file or a pipe; assembly into writers that fill up",
   text="Tens of thousands (quick) to a million (thorough) sources over every opcode, all token classes of the documented grammar, all numeric widths and batch groups are assembled; the emitted bytecode must decode to exactly the instructions written. Half of the sources contain only token classes with no recorded finding so a new break cannot hide behind a known one.",
   note="Trusted: the harness decoder and the expansion table transcribed from instructions.texi. Known findings (numeric-first lexing, upper-case initial) are listed in KNOWN_FINDINGS.txt by token class."),
 "C13": dict(engine="pgfake", category="fault_enumeration", design="§3 C13",
   technique="runtime monitor with fault injection: exhaustive operation sequences x every single and double failing driver primitive (begin, exec, query, next, scan, commit, rollback), including a Put with no data type selected, against an in-process transactional fake of the pgx interface; oracle over the driver call log, acknowledged-write reference map and committed map at quiescence; WithConnection(same pool) on the live store as a further operation; injected failures as anonymous errors, errors wrapping context.Canceled, and *pgconn.PgError values with SQLSTATE codes, at every primitive",
   text="All client-legal sequences up to length 4 (quick) / 5 plus 400k longer PRNG sequences (thorough), each with every choice of 0, 1 or 2 failing primitive calls (begin/exec/query/next/scan/commit): the faulted operation must report an error, no panic, fault-free operations outside a dirty transaction must succeed and return acknowledged values, every transaction must be finished by Close, and the committed map must match the acknowledged writes.",
   note="Trusted base: pgfake's model of Postgres/pgx transaction semantics (no real Postgres offline). Dirty explicit transactions are don't-care. One recorded finding family (sticky multi mode after Stop, pinned by the repository's own test)."),
 "C07": dict(engine="sessions-differential", category="exploration", design="§3 C07",
   technique="runtime monitor: two-run differential (long-lived engine vs fresh engine+persister+store handle per request) over generated applications and histories on four backends, plus snapshot re-read equality; two interleaved sessions per store with a persister of their own or one shared persister object (flushing / plain) and requests abandoned before Finish; engine.Loop as the driver (whole history, one call per request); sessions 12..100 levels deep; sessions started from prepared state and cache objects; saves refused once by the store and repeated by the client; sessions with more than 1024 visible symbols; two long-lived store handles serving a session in turn; a session 150 levels deep under a raised state.MaxLevel",
   text="The same generated application, configuration and input history are served by one long-lived engine and by a new engine per request over mem, fs, fs-binary and the Postgres driver fake; outputs, continue flags and error classes must agree step by step to the end of the session, and after every save the snapshot read back through a fresh handle must equal the live state/cache. No model is involved.",
   note="Assumes error classes (not texts) are what the client observes; histories end at the first failing request. Trusted: harness drivers and pgfake."),
 "C08": dict(engine="sessions-differential", category="exploration", design="§3 C08",
   technique="runtime monitor: recover() + structural invariants at quiescent points over a breadth-first exploration of the session state graph (stored snapshot as branch point) and long PRNG walks, on the repository's example applications and generated well-formed ones; explorations with state.MaxLevel lowered by the application",
   text="Every example application of the repository and hundreds/thousands of generated well-formed applications are explored breadth-first to depth 4/6 over their whole selector alphabet plus hostile inputs, then walked for up to 400 requests; after every request: no panic, one cache scope per stack level, size accounting exact, limits respected, the session saves, loads and equals the live one.",
   note="States after a failed request are checked but not extended in the exhaustive part. Op cap on callbacks turns runaway execution into a violation; a loop without callbacks is caught by the worker watchdog (inconclusive)."),
 "C17": dict(engine="sessions-differential", category="exploration", design="§3 C17",
   technique="runtime monitor: two-run comparison (history with vs without an inserted refused input) in long-lived, persisted, long-lived-with-persister and in-memory-resume drivers (engines replaced over the same state object), snapshot equality around the refusal, callback log of the refused request",
   text="For generated applications and histories a refused input (every byte that cannot start an input, '+' forms, newlines, invalid UTF-8, 256..70000 bytes) is inserted at every position; the refused request must fail without callbacks or output, the snapshots around it must be equal, and all later requests must equal the run without it. Flush before the first Exec is checked the same way.",
   note="The harness's own reading of the accepted input format decides what must be refused. No WithFirst hook installed."),
 "C19": dict(engine="conc-race", category="exploration", design="§3 C19",
   technique="Go race detector (-race build, GORACE log parsed and de-duplicated) + transcript equality against a sequential reference and against the same session served alone by a fresh process + canary check of shared slices, over rounds of 2..16 concurrently served sessions (one or two applications, debug features on in a third of the rounds, one application logger with a session context key shared by all sessions) with PRNG yields inside resource callbacks; external functions that list their notes in the shared store directory while other sessions write",
   text="Rounds of 2..16 goroutines each serve an own session (four driver/backend combinations) over one shared application whose code slices have canary-filled spare capacity; any race report with a library frame, any transcript that differs from the same session served alone, or any modified shared byte is a violation. Evidence reports goroutines, callbacks and cross-session switches observed.",
   note="Covers only the schedules that occurred. Harness-only race reports make the run inconclusive (monitor defect), never a pass."),
 "C01": dict(engine="render", category="exploration", design="§3 C01",
   technique="runtime monitor: relation oracle over real renders (render.Page/Menu/Sizer driven directly, and whole applications through Engine.Flush in lock-step with an unlimited run) at adversarially chosen sizes around every natural page length, including pages whose sizer replaces an earlier one; inputs that look like template syntax echoed on the catch page at every size; MSINK pages with an empty template",
   text="Every generated page configuration is measured without limit and then rendered at every size around its natural length and around the sink-less length, plus a sweep; any successful output longer than the size, any non-sink page that differs from the composed text, any over-long page returned instead of an error and any output written together with an error is a violation. The engine layer serves generated applications in lock-step with and without a limit, sizes taken from the natural lengths of that very history.",
   note="Trusted: the harness's composition of the page text. A fitting page that fails for a reason other than size is outside the property (counted). Known: exit value appended/only written at session end."),
 "C02": dict(engine="render", category="exploration", design="§3 C02",
   technique="runtime monitor: partition/reassembly relation over all pages of one render configuration (marker-delimited sink sections), dense size sweep, plus forward/backward walks through the real engine with the next/previous selectors in both drivers, revisit after another paginated node, language switch, pre-VM function, and a client writer that fails once with Flush retried",
   text="For each configuration (rows incl. empty/leading/consecutive/trailing-empty, MSINK menus, browse labels, error prefix, separators) pages 0..k+1 are rendered at every size from nothing-fits to everything-fits: each page must be static text + section + menu + next/previous exactly as stated, the sections must reassemble to the content, indexes past the end must fail, an offered next must render. The engine layer walks the same content forwards past the end and backwards before the start.",
   note="Break-position policy is free. Known findings (joinSink arithmetic): empty rows at page starts/content end dropped; next offered for a page that fails the size check."),
 "C03": dict(engine="sessions-model", category="exploration", design="§3 C03",
   technique="runtime monitor: lock-step executable reference model (SpecVM) over recorded histories at the API boundary (recording resource, live State/Cache objects, decoded stored snapshot), this property's projection only (position, GetCode log, invalid-input page); routing tables beyond 2^16 lines; model-free metamorphic rewriting of the pending INCMP list",
   text='Thousands of generated programs with duplicate selectors, wildcards anywhere, relative targets and interleaved instructions are served with histories over their selector alphabet plus junk; after every request the nodes fetched and the position must equal first-match-once routing, and an unmatched input must show the invalid-input catch page.',
   note="Trusted base: the SpecVM model (harness/specvm) written from doc/texinfo and the property statements; don't-care where they are silent (state after a failed request, internal flags, paginated pages). Histories are PRNG-determined; held-on-observed only."),
 "C04": dict(engine="sessions-model", category="exploration", design="§3 C04",
   technique="runtime monitor: lock-step executable reference model (SpecVM) over recorded histories at the API boundary (recording resource, live State/Cache objects, decoded stored snapshot), this property's projection only (node path and page index, live and stored); node names that differ only in letter case; every eighth history in alternation with a session of another application",
   text='Generated node graphs are navigated with histories of up to 40 inputs in the long-lived and persisted drivers; after every request State.ExecPath/SizeIdx (live and decoded from the store) must equal the documented move table applied to the moves executed, and failing moves must fail the request.',
   note="Trusted base: the SpecVM model (harness/specvm) written from doc/texinfo and the property statements; don't-care where they are silent (state after a failed request, internal flags, paginated pages). Histories are PRNG-determined; held-on-observed only."),
 "C05": dict(engine="sessions-model", category="exploration", design="§3 C05",
   technique="runtime monitor: lock-step executable reference model (SpecVM) over recorded histories at the API boundary (recording resource, live State/Cache objects, decoded stored snapshot), this property's projection only (external-call log, cache scopes, page text, limit check); two sessions with more than 1024 visible symbols",
   text='Programs that load the same symbols at several depths, reload, map and move are served with histories that descend, ascend and re-enter; the call log, the cache contents per scope (live and stored) and every non-paginated page must equal the model, and no over-limit value may be stored (lengths up to 70000).',
   note="Trusted base: the SpecVM model (harness/specvm) written from doc/texinfo and the property statements; don't-care where they are silent (state after a failed request, internal flags, paginated pages). Histories are PRNG-determined; held-on-observed only."),
 "C06": dict(engine="sessions-model", category="exploration", design="§3 C06",
   technique='three runtime monitors: enumerated CATCH/CROAK operands against the reference model; model-free two-run tamper oracle (hostile vs filtered FlagSet/FlagReset lists, complete Flags bytes compared); TERMINATE-block monitor with the flag cleared in the stored state',
   text="Every in-range flag index (all for counts <= 64, boundaries above; all in thorough) is exercised as CATCH and CROAK operand in both modes; generated applications are run twice with and without reserved indices in the functions' flag lists and must be indistinguishable down to the Flags bytes; while TERMINATE is set no output, callback or move may happen until the harness clears it.",
   note="Trusted base: the SpecVM model (harness/specvm) written from doc/texinfo and the property statements; don't-care where they are silent (state after a failed request, internal flags, paginated pages). Histories are PRNG-determined; held-on-observed only."),
 "C18": dict(engine="sessions-model", category="exploration", design="§3 C18",
   technique="runtime monitor: lock-step executable reference model (SpecVM) over recorded histories at the API boundary (recording resource, live State/Cache objects, decoded stored snapshot), this property's projection only (language carried by every callback, State.Language, translated page text); dictionary-model monitor of the gettext resource over generated locale trees; differential of the DbResource-over-store deployment against the recording resource; long-lived driver with the client setting TERMINATE after a failed request (model-free blocking invariant); DbStack leg (code, templates, labels, static loads and their translations in a store behind resource.DbResource, both naming schemes) compared with the recording resource; gettext leg against a dictionary model",
   text="Applications with language switchers (valid 2/3-letter codes, invalid strings, empty) and partial translations are served in four driver/backend combinations; every GetCode/FuncFor/function/GetTemplate/GetMenu callback must carry the model's language, the stored State.Language must equal it, and pages must show translation-or-default text.",
   note="Trusted base: the SpecVM model (harness/specvm) written from doc/texinfo and the property statements; don't-care where they are silent (state after a failed request, internal flags, paginated pages). Histories are PRNG-determined; held-on-observed only. The DbResource lookup path (key suffixing) is exercised by C10."),
 "C20": dict(engine="sessions-model", category="exploration", design="§3 C20",
   technique="runtime monitor: lock-step executable reference model (SpecVM) over recorded histories at the API boundary (recording resource, live State/Cache objects, decoded stored snapshot), this property's projection only (continue flag, final output, restart position, cache emptiness, client flags, blocked requests); a share of the cases repeated in a second binary built with -tags logtrace (logging compiled in, output discarded)",
   text='Applications with both kinds of end nodes, TERMINATE-setting functions and CROAK are driven past the end of the session over several end/restart cycles on mem, fs and the Postgres fake; graceful ends must deliver page+exit value and restart at the entry node with an empty cache and the client flags kept; terminated sessions must stay silent until the flag is cleared.',
   note="Trusted base: the SpecVM model (harness/specvm) written from doc/texinfo and the property statements; don't-care where they are silent (state after a failed request, internal flags, paginated pages). Histories are PRNG-determined; held-on-observed only."),
 "C10": dict(engine="refstore", category="exploration", design="§3 C10",
   technique="runtime monitor: lock-step reference map over recorded store operations, the same sequence applied to mem, fs, fs-binary and the Postgres driver fake (each compared with the model and thereby with each other), including resource.DbResource getters and fs listings; caller-owned key/value buffers are overwritten after every call (aliasing oracle); enumerated translation family; listings abandoned before compared listings; write faults by RLIMIT_FSIZE on the fs store; values with byte order marks, magic numbers, line ends and blanks at either end; SetLock with several data types in one call; values of 1..17 MiB",
   text="PRNG sequences of Put/Get/SetPrefix/SetSession/SetLanguage/SetLock(seal)/Dump and DbResource lookups over well-formed keys (including the letters that double as fs type characters), dot-free session ids, text/binary/empty values and all six data types are applied to a reference map and to four backends; reads, not-found recognition, language fallback, lock refusal, sealing, the resource's refusal of unlocked stores and prefix listings must agree with the model.",
   note="Trusted: the reference map; pgfake for Postgres. Listings are compared for types without language scope. One recorded finding (empty session lists all sessions)."),
 "C11": dict(engine="refstore", category="exploration", design="§3 C11",
   technique="runtime monitor: exhaustive ordered-pair isolation probes by bit-indexed write/read rounds with unique values over an adversarial address alphabet on four backends, each hit confirmed by an isolated two-address probe and attributed to a mechanism computed from the two addresses; every round read a second time through the handle with every data type locked; snapshot equality for sessions saved and loaded through one shared persister object (plain and flushing, also after a refused request); birthday family of over-long ids when the store accepts them; data type and session selected before Connect; listings on fs and the Postgres fake",
   text="All ordered pairs of different (type, session, key) addresses from an adversarial alphabet (24 session ids x 24 keys x 2 sessioned types + 24 keys x 4 resource types = 1248 addresses quick; 60 x 60 alphabets thorough) are covered on mem, fs, fs-binary and the Postgres fake with 2*log2(n) rounds per backend: a written address must return its own value, an unwritten one nothing, an fs or Postgres listing only its own session's records. A confusion through any mechanism other than the recorded ones (separator ambiguity of sid.key; legacy file-name fallback for resource types) is a new violation.",
   note="Addresses whose Put fails count as not accepted by the backend. Mechanism attribution is computed by the harness from the two addresses only."),
 "C12": dict(engine="crash", category="fault_enumeration", design="§3 C12",
   technique="runtime fault injection: real process death (strace inject SIGKILL on syscall entry) before every recorded file-system syscall of a real engine request on the fs store, plus torn writes synthesised from the recorded payloads; recovery oracle on every crash directory; every second pair with the store on another file system than the process' temporary directory",
   text="For old/new snapshot pairs along generated histories (small and > 4 KiB records, first-ever save) a child process performs one real request; its file-system syscalls are recorded, then the child is killed before each of them in turn and every write is additionally torn at several byte counts. Each crash directory must load to the complete old or complete new snapshot, continue the session accordingly, and leave other sessions' records unchanged.",
   note="Process death, not power loss. Needs working ptrace (otherwise inconclusive). Kill runs whose trace does not show the recorded prefix are counted as inconclusive points."),
}
NOT_YET = {}
ALL = ["C%02d" % i for i in range(1, 21)]
m = {
 "version": 1,
 "setup_cmd": "cd /verif && ./setup.sh",
 "hooks": {
   "guard": "verif",
   "enable": "go build -tags verif (done by /verif/run.sh for every check)",
   "baseline_off_cmd": "/verif/baseline.sh",
   "source_commits": [],
   "add_only": True,
 },
 "engines": [],
 "checks": [],
 "notes": "Technique family: runtime monitoring. Every check builds the harness (/verif/harness, replace => /repo) from /repo's working tree and runs the real code under generated workloads while a monitor decides. Exit 0 held / 1 VIOLATION / 2 INCONCLUSIVE. KNOWN_FINDINGS.txt lists repaired (fixed:) and recorded (known:) defects.",
 "not_applicable": [],
}
import os, subprocess
try:
    hooks = open('/verif/HOOK_COMMITS.txt').read().split()
except Exception:
    hooks = []
m["hooks"]["source_commits"] = hooks
engines = {}
for pid in ALL:
    c = CHECKS.get(pid)
    if not c:
        m["not_applicable"].append({"property_id": pid, "reason": NOT_YET.get(pid, "check not built yet in this session (runtime monitor designed in DESIGN.md §3, not registered until it runs clean)")})
        continue
    engines.setdefault(c["engine"], []).append(pid)
    m["checks"].append({
      "property_id": pid,
      "quick_cmd": "./run.sh %s quick" % pid,
      "thorough_cmd": "./run.sh %s thorough" % pid,
      "evidence_file": "/verif/evidence/%s.json" % pid,
      "replay_cmd_template": "./run.sh %s quick --replay {path}" % pid,
      "engine": c["engine"],
      "level_claimed": {"category": c["category"], "text": c["text"], "design_ref": c["design"]},
      "level_note": c["note"],
      "technique": c["technique"],
    })
for e, ps in engines.items():
    m["engines"].append({"name": e, "path": "/verif/harness", "serves_properties": ps, "kind_free_text": "Go harness package verif/harness/checks, run through /verif/run.sh"})
json.dump(m, open('/verif/MANIFEST.json', 'w'), indent=1)
print("checks:", [c["property_id"] for c in m["checks"]], "not_applicable:", len(m["not_applicable"]))
