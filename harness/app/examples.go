package app

import (
	"bytes"
	"fmt"
	"os"
	"path/filepath"
	"sort"
	"strings"

	"git.defalsify.org/vise.git/asm"

	"verif/harness/codec"
)

// LoadExample assembles every *.vis file of one example directory of the repository with asm.Parse
// (flag names resolved with asm.FlagParser when a pp.csv exists), takes templates from the files named
// after the nodes, binds every external symbol to a stub and adds a default _catch if there is none.
func LoadExample(dir string) (*App, error) {
	vis, _ := filepath.Glob(filepath.Join(dir, "*.vis"))
	if len(vis) == 0 {
		return nil, fmt.Errorf("no .vis files")
	}
	sort.Strings(vis)
	var fp *asm.FlagParser
	if _, err := os.Stat(filepath.Join(dir, "pp.csv")); err == nil {
		fp = asm.NewFlagParser()
		if _, err := fp.Load(filepath.Join(dir, "pp.csv")); err != nil {
			return nil, err
		}
	}
	a := NewApp()
	maxFlag := uint32(8)
	for _, f := range vis {
		name := strings.TrimSuffix(filepath.Base(f), ".vis")
		src, err := os.ReadFile(f)
		if err != nil {
			return nil, err
		}
		var out []string
		for _, ln := range strings.Split(string(src), "\n") {
			fs := strings.Fields(ln)
			if len(fs) == 0 {
				continue
			}
			if fp != nil {
				idx := -1
				if fs[0] == "CATCH" && len(fs) >= 3 {
					idx = 2
				} else if fs[0] == "CROAK" && len(fs) >= 2 {
					idx = 1
				}
				if idx > 0 {
					if v, err := fp.GetAsString(fs[idx]); err == nil {
						fs[idx] = v
					}
				}
			}
			out = append(out, strings.Join(fs, " "))
		}
		w := bytes.NewBuffer(nil)
		if _, err := asm.Parse(strings.Join(out, "\n")+"\n", w); err != nil {
			return nil, fmt.Errorf("%s: %v", f, err)
		}
		prog, class, _ := codec.Decode(w.Bytes())
		if class != codec.Valid && class != codec.Empty {
			return nil, fmt.Errorf("%s: assembled bytecode is %s", f, class)
		}
		n := &Node{Name: name, Code: prog}
		if t, err := os.ReadFile(filepath.Join(dir, name)); err == nil {
			n.Template = strings.TrimRight(string(t), "\n")
		} else {
			n.Template = "node " + name
		}
		a.AddNode(n)
		for _, ins := range prog {
			switch ins.Op {
			case codec.LOAD:
				if _, ok := a.Funcs[ins.S1]; !ok {
					f := &FuncSpec{Sym: ins.S1, Kind: "id"}
					if ins.N == 0 {
						f.Kind = "rows"
						f.Rows = []string{ins.S1 + ".r0", ins.S1 + ".r1", ins.S1 + ".r2"}
					} else if ins.N < 8 {
						f.Kind = "len"
						f.Lens = []int{int(ins.N)}
					}
					a.Funcs[ins.S1] = f
				}
			case codec.CATCH, codec.CROAK:
				if ins.N > maxFlag {
					maxFlag = ins.N
				}
			}
		}
	}
	if _, ok := a.Nodes["root"]; !ok {
		return nil, fmt.Errorf("no root node")
	}
	// nodes referenced but not defined make the application ill-formed for C08: report
	for _, n := range a.Nodes {
		for _, ins := range n.Code {
			if ins.Op == codec.MOVE || ins.Op == codec.INCMP || ins.Op == codec.CATCH {
				t := ins.S1
				if len(t) == 1 && strings.Contains("_^.<>", t) {
					continue
				}
				if _, ok := a.Nodes[t]; !ok && t != "_catch" {
					return nil, fmt.Errorf("node %s moves to undefined node %s", n.Name, t)
				}
				if t == n.Name {
					return nil, fmt.Errorf("node %s moves to itself", n.Name)
				}
			}
			if ins.Op == codec.RELOAD || ins.Op == codec.MAP {
				if _, ok := a.Funcs[ins.S1]; !ok {
					a.Funcs[ins.S1] = &FuncSpec{Sym: ins.S1, Kind: "id"}
				}
			}
		}
	}
	if _, ok := a.Nodes["_catch"]; !ok {
		a.AddNode(&Node{Name: "_catch", Template: "catch page", Code: []codec.Ins{{Op: codec.MOUT, S1: "back", S2: "0"}, {Op: codec.HALT}, {Op: codec.INCMP, S1: "_", S2: "*"}}})
	}
	a.FlagCount = maxFlag - 8 + 1
	a.Finalize()
	return a, nil
}

// ExampleDirs lists the example directories of the repository that contain assembly.
func ExampleDirs(repo string) []string {
	ds, _ := filepath.Glob(filepath.Join(repo, "examples", "*"))
	var out []string
	for _, d := range ds {
		if m, _ := filepath.Glob(filepath.Join(d, "*.vis")); len(m) > 0 {
			out = append(out, d)
		}
	}
	sort.Strings(out)
	return out
}
