package app

import (
	"bytes"
	"context"
	"fmt"
	"os"
	"reflect"
	"sort"

	"git.defalsify.org/vise.git/cache"
	"git.defalsify.org/vise.git/db"
	fsdb "git.defalsify.org/vise.git/db/fs"
	memdb "git.defalsify.org/vise.git/db/mem"
	"git.defalsify.org/vise.git/db/postgres"
	"git.defalsify.org/vise.git/engine"
	"git.defalsify.org/vise.git/persist"
	"git.defalsify.org/vise.git/state"

	"verif/harness/pgfake"
	"verif/harness/vk"
)

// Config mirrors the engine.Config fields the harness varies.
type Config struct {
	OutputSize    uint32 `json:"output_size"`
	CacheSize     uint32 `json:"cache_size,omitempty"`
	FlagCount     uint32 `json:"flag_count"`
	Language      string `json:"language,omitempty"`
	SessionId     string `json:"session_id"`
	Root          string `json:"root"`
	MenuSeparator string `json:"menu_separator,omitempty"`
	// ResetOnEmptyInput mirrors engine.Config.ResetOnEmptyInput
	ResetOnEmptyInput bool `json:"reset_on_empty_input,omitempty"`
	// First installs the application's "_first" function with Engine.WithFirst
	First bool `json:"first,omitempty"`
	// PersisterContent: the per-request client creates the state and cache objects itself and hands them to the
	// persister (Persister.WithContent) instead of leaving that to the engine
	PersisterContent bool `json:"persister_content,omitempty"`
	// Debug switches on engine.Config.StateDebug/EngineDebug and installs an engine.SimpleDebug that writes to a
	// counting sink (observational features: nothing a client sees may depend on them)
	Debug bool `json:"debug,omitempty"`
	// StoreSession: the per-request client also selects the session on its store handle (db.SetSession), as the
	// repository's http example does, before it hands the handle to the persister
	StoreSession bool `json:"store_session,omitempty"`
	// FuncUsesStore: the external functions keep user data in the store handle that also holds the session
	FuncUsesStore bool `json:"func_uses_store,omitempty"`
}

// scribbleInput overwrites a buffer that belongs to the client.
func scribbleInput(b []byte) {
	for i := range b {
		b[i] = '~'
	}
}

// DebugSink counts what the engine debugger writes.
type DebugSink struct{ N int }

func (d *DebugSink) Write(p []byte) (int, error) { d.N += len(p); return len(p), nil }

func (c Config) Engine() engine.Config {
	return engine.Config{OutputSize: c.OutputSize, CacheSize: c.CacheSize, FlagCount: c.FlagCount, Language: c.Language,
		SessionId: c.SessionId, Root: c.Root, MenuSeparator: c.MenuSeparator, ResetOnEmptyInput: c.ResetOnEmptyInput,
		StateDebug: c.Debug, EngineDebug: c.Debug}
}

// StateSnap / CacheSnap are comparable copies of the exported session state.
type StateSnap struct {
	ExecPath []string `json:"path"`
	SizeIdx  uint16   `json:"idx"`
	Flags    []byte   `json:"flags"`
	Code     []byte   `json:"code"`
	Lang     string   `json:"lang"`
	Moves    uint32   `json:"moves"`
	BitSize  uint32   `json:"bitsize"`
}

type CacheSnap struct {
	Size   uint32              `json:"size"`
	Use    uint32              `json:"use"`
	Frames []map[string]string `json:"frames"`
	Sizes  map[string]uint16   `json:"sizes"`
	Last   string              `json:"last"`
}

func SnapState(st *state.State) *StateSnap {
	if st == nil {
		return nil
	}
	s := &StateSnap{ExecPath: append([]string{}, st.ExecPath...), SizeIdx: st.SizeIdx, Flags: append([]byte{}, st.Flags...),
		Code: append([]byte{}, st.Code...), Moves: st.Moves, BitSize: st.BitSize}
	if st.Language != nil {
		s.Lang = st.Language.Code
	}
	return s
}

func SnapCache(ca *cache.Cache) *CacheSnap {
	if ca == nil {
		return nil
	}
	s := &CacheSnap{Size: ca.CacheSize, Use: ca.CacheUseSize, Sizes: map[string]uint16{}, Last: ca.LastValue}
	for _, f := range ca.Cache {
		m := map[string]string{}
		for k, v := range f {
			m[k] = v
		}
		s.Frames = append(s.Frames, m)
	}
	for k, v := range ca.Sizes {
		s.Sizes[k] = v
	}
	return s
}

// Flag reads a flag from a snapshot.
func (s *StateSnap) Flag(i uint32) bool {
	if int(i/8) >= len(s.Flags) {
		return false
	}
	return s.Flags[i/8]&(1<<(i%8)) != 0
}

// ClientFlags lists the set flags >= 8.
func (s *StateSnap) ClientFlags() []uint32 {
	var l []uint32
	for i := uint32(8); i < uint32(len(s.Flags))*8; i++ {
		if s.Flag(i) {
			l = append(l, i)
		}
	}
	return l
}

func (s *StateSnap) Equal(o *StateSnap) bool {
	if s == nil || o == nil {
		return s == o
	}
	return reflect.DeepEqual(normState(s), normState(o))
}

func normState(s *StateSnap) StateSnap {
	c := *s
	if len(c.ExecPath) == 0 {
		c.ExecPath = nil
	}
	if len(c.Flags) == 0 {
		c.Flags = nil
	}
	if len(c.Code) == 0 {
		c.Code = nil
	}
	return c
}

func (s *CacheSnap) Equal(o *CacheSnap) bool {
	if s == nil || o == nil {
		return s == o
	}
	if s.Size != o.Size || s.Use != o.Use || s.Last != o.Last || len(s.Frames) != len(o.Frames) {
		return false
	}
	for i := range s.Frames {
		if len(s.Frames[i]) != len(o.Frames[i]) {
			return false
		}
		for k, v := range s.Frames[i] {
			if ov, ok := o.Frames[i][k]; !ok || ov != v {
				return false
			}
		}
	}
	if len(s.Sizes) != len(o.Sizes) {
		return false
	}
	for k, v := range s.Sizes {
		if ov, ok := o.Sizes[k]; !ok || ov != v {
			return false
		}
	}
	return true
}

// Obs is what one request showed at the API boundary.
type Obs struct {
	Input          string     `json:"input"`
	Cont           bool       `json:"cont"`
	ExecErr        string     `json:"exec_err,omitempty"`
	Flushed        bool       `json:"flushed"`
	FlushErr       string     `json:"flush_err,omitempty"`
	FlushN         int        `json:"-"`
	FinishErr      string     `json:"finish_err,omitempty"`
	FinishRefused  string     `json:"finish_refused,omitempty"` // error of a Finish that the store refused once (then repeated)
	Abandoned      bool       `json:"abandoned,omitempty"`
	FailedFlush    bool       `json:"failed_flush,omitempty"`
	FailedFlushErr string     `json:"failed_flush_err,omitempty"`
	Out            string     `json:"out"`
	Panic          string     `json:"panic,omitempty"`
	PanicSig       string     `json:"-"`
	Events         []Event    `json:"-"`
	ExecEvents     []Event    `json:"-"`
	FlushEvents    []Event    `json:"-"`
	State          *StateSnap `json:"state,omitempty"`
	Cache          *CacheSnap `json:"cache,omitempty"`
	PreFlushed     bool       `json:"-"`
	PreFlushErr    string     `json:"pre_flush_err,omitempty"`
	PreFlushOut    string     `json:"pre_flush_out,omitempty"`
	PreFlushEvents []Event    `json:"-"`
	// Stored: snapshot decoded from the store through a fresh handle (persisted driver only)
	StoredState *StateSnap `json:"-"`
	StoredCache *CacheSnap `json:"-"`
	StoredErr   string     `json:"stored_err,omitempty"`
}

// ErrClass folds an error string into a class that both drivers must agree on.
func ErrClass(s string) string {
	if s == "" {
		return ""
	}
	return "error"
}

func (o *Obs) Brief() string {
	return fmt.Sprintf("in=%q cont=%v execErr=%q flushErr=%q out=%q panic=%q", o.Input, o.Cont, short(o.ExecErr, 80), short(o.FlushErr, 80), short(o.Out, 200), short(o.Panic, 80))
}

func short(s string, n int) string {
	if len(s) > n {
		return s[:n] + "…"
	}
	return s
}

// Driver serves one session.
type Driver interface {
	Request(input []byte) *Obs
	Close()
}

// ---------------------------------------------------------------------------------------------
// backends

type Backend struct {
	Kind string // mem | fs | fsbin | pg
	mem  db.Db
	Dir  string
	Srv  *pgfake.Server
	// Conns opened on the pg fake (for tx accounting)
	Conns []*pgfake.Conn
}

func NewBackend(kind string) (*Backend, error) {
	b := &Backend{Kind: kind}
	switch kind {
	case "mem":
		m := memdb.NewMemDb()
		m.Connect(context.Background(), "")
		b.mem = m
	case "fs", "fsbin":
		d, err := os.MkdirTemp("", "vfs-")
		if err != nil {
			return nil, err
		}
		b.Dir = d
	case "pg":
		b.Srv = pgfake.NewServer()
	default:
		return nil, fmt.Errorf("unknown backend %q", kind)
	}
	return b, nil
}

// Handle opens a new store handle on the shared storage.
func (b *Backend) Handle() (db.Db, error) {
	ctx := context.Background()
	switch b.Kind {
	case "mem":
		return b.mem, nil
	case "fs":
		s := fsdb.NewFsDb()
		if err := s.Connect(ctx, b.Dir); err != nil {
			return nil, err
		}
		return s, nil
	case "fsbin":
		s := fsdb.NewFsDb().WithBinary()
		if err := s.Connect(ctx, b.Dir); err != nil {
			return nil, err
		}
		return s, nil
	case "pg":
		c := b.Srv.Connect()
		b.Conns = append(b.Conns, c)
		return postgres.NewPgDb().WithConnection(c).WithSchema("public"), nil
	}
	return nil, fmt.Errorf("unknown backend")
}

func (b *Backend) Cleanup() {
	if b.Dir != "" {
		os.RemoveAll(b.Dir)
	}
}

// ---------------------------------------------------------------------------------------------
// long-lived driver

type LongLived struct {
	Cfg Config
	Res *RecRes
	St  *state.State
	Ca  *cache.Cache
	En  *engine.DefaultEngine
	// FlushAfterError: call Flush even when Exec returned an error (C17)
	FlushAfterError bool
	// PreFlush: call Flush before the very first Exec (C17: output asked before anything was executed)
	PreFlush bool
	nreq     int
	DebugOut DebugSink
	// Recreate: a new engine is built over the same state and cache objects for every request (in-memory resume with
	// WithState/WithMemory: the session lives in the client's objects, engines come and go)
	Recreate bool
	// RecreateWhen, if set, decides per request number (1-based) whether a new engine takes over (engines that serve
	// a few requests each)
	RecreateWhen func(n int) bool
	// FailFirstFlush, if set and true for the request number (1-based), makes the client's writer fail once: Flush is
	// called with a writer that refuses, and then again with a working one (a connection hiccup and a retry)
	FailFirstFlush func(n int) bool
}

type refusingWriter struct{}

func (refusingWriter) Write(p []byte) (int, error) { return 0, fmt.Errorf("write: broken pipe") }

func NewLongLived(a *App, cfg Config) *LongLived {
	d := &LongLived{Cfg: cfg, Res: NewRecRes(a)}
	d.St = state.NewState(cfg.FlagCount)
	d.Ca = cache.NewCache()
	if cfg.CacheSize > 0 {
		d.Ca = d.Ca.WithCacheSize(cfg.CacheSize)
	}
	d.build()
	return d
}

func (d *LongLived) build() {
	d.En = engine.NewEngine(d.Cfg.Engine(), d.Res).WithState(d.St).WithMemory(d.Ca)
	if d.Cfg.First && d.Res.App.Funcs["_first"] != nil {
		d.En = d.En.WithFirst(d.Res.FirstFunc())
	}
	if d.Cfg.Debug {
		d.En = d.En.WithDebug(engine.NewSimpleDebug(&d.DebugOut))
	}
}

func (d *LongLived) Request(input []byte) *Obs {
	o := &Obs{Input: string(input)}
	ctx := context.Background()
	d.Res.Take()
	d.nreq++
	pv, stack := vk.Guard(func() {
		if d.nreq > 1 && (d.Recreate || d.RecreateWhen != nil && d.RecreateWhen(d.nreq)) {
			d.En.Finish(ctx)
			d.build()
		}
		if d.PreFlush && d.nreq == 1 {
			var buf bytes.Buffer
			_, ferr := d.En.Flush(ctx, &buf)
			o.PreFlushed = true
			o.PreFlushOut = buf.String()
			if ferr != nil {
				o.PreFlushErr = ferr.Error()
			}
			o.PreFlushEvents = d.Res.Take()
		}
		cont, err := d.En.Exec(ctx, input)
		scribbleInput(input) // the client's read buffer is reused as soon as Exec returns
		o.Cont = cont
		if err != nil {
			o.ExecErr = err.Error()
		}
		o.ExecEvents = d.Res.Take()
		if err == nil || d.FlushAfterError {
			if d.FailFirstFlush != nil && d.FailFirstFlush(d.nreq) {
				_, werr := d.En.Flush(ctx, refusingWriter{})
				o.FailedFlush = true
				if werr != nil {
					o.FailedFlushErr = werr.Error()
				}
			}
			var buf bytes.Buffer
			n, ferr := d.En.Flush(ctx, &buf)
			o.Flushed = true
			o.FlushN = n
			o.Out = buf.String()
			if ferr != nil {
				o.FlushErr = ferr.Error()
			}
			o.FlushEvents = d.Res.Take()
		}
	})
	if pv != nil {
		o.Panic = fmt.Sprint(pv)
		o.PanicSig = vk.PanicSig(pv, stack)
		o.ExecEvents = append(o.ExecEvents, d.Res.Take()...)
	}
	o.Events = append(append([]Event{}, o.ExecEvents...), o.FlushEvents...)
	o.State = SnapState(d.St)
	o.Cache = SnapCache(d.Ca)
	return o
}

func (d *LongLived) Close() {
	vk.Guard(func() { d.En.Finish(context.Background()) })
}

// ---------------------------------------------------------------------------------------------
// per-request (persisted) driver

// SharedPersister is one persist.Persister object (and its store handle) that serves the requests of several
// sessions in turn: the "worker-wide persister" pattern. Mode "flush": created WithFlush, used from the first
// request on. Mode "plain": used for a session once that session exists in the store (its first request goes
// through a persister of its own).
type SharedPersister struct {
	Mode  string
	store db.Db
	pe    *persist.Persister
	seen  map[string]bool
	kind  string
}

func (sp *SharedPersister) Close() {
	if sp.store != nil && sp.kind != "mem" {
		vk.Guard(func() { sp.store.Close(context.Background()) })
	}
}

type PerRequest struct {
	// Shared, if set, makes the requests go through a shared persister object (see SharedPersister)
	Shared *SharedPersister
	// AbandonNext: the next request is executed and flushed but never finished (the client went away): nothing of it
	// may be saved. Reset by Request.
	AbandonNext     bool
	Cfg             Config
	Res             *RecRes
	B               *Backend
	FlushAfterError bool
	// PreFlush: call Flush on the fresh engine before Exec, every request
	PreFlush bool
	// SkipStoredRead: do not re-read the snapshot through a fresh handle after each request
	SkipStoredRead bool
	// BeforeFinish, if set, is called between Flush and Finish (C12 markers)
	BeforeFinish func()
	AfterFinish  func()
	DebugOut     DebugSink
	// RefuseFinishNext: the store refuses the save of the next request once (the session data type is locked on the
	// handle while Finish runs, as a maintenance window would); the client sees the error, the lock is lifted and
	// Finish is called again on the same engine. Reset by Request. FinishRefusals counts the refusals seen.
	RefuseFinishNext bool
	FinishRefusals   int
	// AlternateHandles: instead of a new store handle per request, two long-lived handles serve the requests in turn
	AlternateHandles bool
	pool             [2]db.Db
	nreq             int
}

func NewPerRequest(a *App, cfg Config, b *Backend) *PerRequest {
	return &PerRequest{Cfg: cfg, Res: NewRecRes(a), B: b}
}

func (d *PerRequest) Request(input []byte) *Obs {
	o := &Obs{Input: string(input)}
	ctx := context.Background()
	d.Res.Take()
	abandon := d.AbandonNext
	d.AbandonNext = false
	refuse := d.RefuseFinishNext
	d.RefuseFinishNext = false
	useShared := d.Shared != nil && (d.Shared.Mode == "flush" || d.Shared.seen[d.Cfg.SessionId])
	var store db.Db
	var err error
	pooled := false
	if useShared && d.Shared.store != nil {
		store = d.Shared.store
	} else if d.AlternateHandles && d.B.Kind != "mem" && d.Shared == nil {
		// two workers, each with a store handle that lives as long as the worker: consecutive requests of the session
		// go to them in turn
		k := d.nreq % 2
		d.nreq++
		if d.pool[k] == nil {
			d.pool[k], err = d.B.Handle()
		}
		store, pooled = d.pool[k], true
	} else {
		store, err = d.B.Handle()
	}
	if err != nil {
		o.ExecErr = "harness: " + err.Error()
		return o
	}
	var pe *persist.Persister
	pv, stack := vk.Guard(func() {
		if useShared {
			if d.Shared.pe == nil {
				d.Shared.store, d.Shared.kind = store, d.B.Kind
				d.Shared.pe = persist.NewPersister(store)
				if d.Shared.Mode == "flush" {
					d.Shared.pe = d.Shared.pe.WithFlush()
				}
			}
			pe = d.Shared.pe
		} else {
			pe = persist.NewPersister(store)
		}
		if d.Cfg.StoreSession {
			store.SetSession(d.Cfg.SessionId) // every request, also on a shared handle
		}
		if d.Cfg.FuncUsesStore {
			d.Res.Store = store
			d.Res.StoreLists = d.B.Kind == "fs" || d.B.Kind == "fsbin"
		}
		if d.Cfg.PersisterContent && !useShared {
			ca := cache.NewCache()
			if d.Cfg.CacheSize > 0 {
				ca = ca.WithCacheSize(d.Cfg.CacheSize)
			}
			pe = pe.WithContent(state.NewState(d.Cfg.FlagCount), ca)
		}
		en := engine.NewEngine(d.Cfg.Engine(), d.Res).WithPersister(pe)
		if d.Cfg.First && d.Res.App.Funcs["_first"] != nil {
			en = en.WithFirst(d.Res.FirstFunc())
		}
		if d.Cfg.Debug {
			en = en.WithDebug(engine.NewSimpleDebug(&d.DebugOut))
		}
		if d.PreFlush {
			var buf bytes.Buffer
			_, ferr := en.Flush(ctx, &buf)
			o.PreFlushed = true
			o.PreFlushOut = buf.String()
			if ferr != nil {
				o.PreFlushErr = ferr.Error()
			}
			o.PreFlushEvents = d.Res.Take()
		}
		cont, err := en.Exec(ctx, input)
		scribbleInput(input) // the client's read buffer is reused as soon as Exec returns
		o.Cont = cont
		if err != nil {
			o.ExecErr = err.Error()
		}
		o.ExecEvents = d.Res.Take()
		if err == nil || d.FlushAfterError {
			var buf bytes.Buffer
			n, ferr := en.Flush(ctx, &buf)
			o.Flushed = true
			o.FlushN = n
			o.Out = buf.String()
			if ferr != nil {
				o.FlushErr = ferr.Error()
			}
			o.FlushEvents = d.Res.Take()
		}
		if d.BeforeFinish != nil {
			d.BeforeFinish()
		}
		if abandon {
			o.Abandoned = true
			return
		}
		if refuse {
			store.SetLock(db.DATATYPE_STATE, true)
			ferr := en.Finish(ctx)
			store.SetLock(db.DATATYPE_STATE, false)
			if ferr != nil {
				d.FinishRefusals++
				o.FinishRefused = ferr.Error()
			}
			// the client repeats Finish until it succeeds
		}
		if ferr := en.Finish(ctx); ferr != nil {
			o.FinishErr = ferr.Error()
		} else if d.Shared != nil {
			if d.Shared.seen == nil {
				d.Shared.seen = map[string]bool{}
			}
			d.Shared.seen[d.Cfg.SessionId] = true
		}
		if d.AfterFinish != nil {
			d.AfterFinish()
		}
	})
	if pv != nil {
		o.Panic = fmt.Sprint(pv)
		o.PanicSig = vk.PanicSig(pv, stack)
		o.ExecEvents = append(o.ExecEvents, d.Res.Take()...)
	}
	o.Events = append(append([]Event{}, o.ExecEvents...), o.FlushEvents...)
	if pe != nil {
		vk.Guard(func() {
			o.State = SnapState(pe.GetState())
			if m, ok := pe.GetMemory().(*cache.Cache); ok {
				o.Cache = SnapCache(m)
			}
		})
	}
	if d.B.Kind != "mem" && !useShared && !pooled {
		vk.Guard(func() { store.Close(ctx) })
	}
	if !d.SkipStoredRead {
		o.StoredState, o.StoredCache, o.StoredErr = d.ReadStored()
	}
	return o
}

// ReadStored loads the session's snapshot through a fresh handle and persister.
func (d *PerRequest) ReadStored() (st *StateSnap, ca *CacheSnap, errs string) {
	ctx := context.Background()
	store, err := d.B.Handle()
	if err != nil {
		return nil, nil, err.Error()
	}
	pv, _ := vk.Guard(func() {
		if d.Cfg.StoreSession {
			store.SetSession(d.Cfg.SessionId)
		}
		pe := persist.NewPersister(store)
		pe = pe.WithContent(state.NewState(d.Cfg.FlagCount), cache.NewCache())
		if err := pe.Load(d.Cfg.SessionId); err != nil {
			errs = err.Error()
			return
		}
		st = SnapState(pe.GetState())
		if m, ok := pe.GetMemory().(*cache.Cache); ok {
			ca = SnapCache(m)
		}
	})
	if pv != nil {
		errs = fmt.Sprint("panic: ", pv)
	}
	if d.B.Kind != "mem" {
		vk.Guard(func() { store.Close(ctx) })
	}
	return
}

// Mutate loads the stored session, lets f change it (as client code would) and saves it back.
func (d *PerRequest) Mutate(f func(st *state.State, ca *cache.Cache)) error {
	ctx := context.Background()
	store, err := d.B.Handle()
	if err != nil {
		return err
	}
	var rerr error
	pv, _ := vk.Guard(func() {
		if d.Cfg.StoreSession {
			store.SetSession(d.Cfg.SessionId)
		}
		pe := persist.NewPersister(store)
		pe = pe.WithContent(state.NewState(d.Cfg.FlagCount), cache.NewCache())
		if err := pe.Load(d.Cfg.SessionId); err != nil {
			rerr = err
			return
		}
		f(pe.GetState(), pe.GetMemory().(*cache.Cache))
		rerr = pe.Save(d.Cfg.SessionId)
	})
	if pv != nil {
		rerr = fmt.Errorf("panic: %v", pv)
	}
	if d.B.Kind != "mem" {
		vk.Guard(func() { store.Close(ctx) })
	}
	return rerr
}

func (d *PerRequest) Close() {
	for _, h := range d.pool {
		if h != nil {
			vk.Guard(func() { h.Close(context.Background()) })
		}
	}
}

// SortedKeys is a helper for deterministic output.
func SortedKeys(m map[string]string) []string {
	l := make([]string, 0, len(m))
	for k := range m {
		l = append(l, k)
	}
	sort.Strings(l)
	return l
}

// ---------------------------------------------------------------------------------------------
// engine.Loop as the driver

// LoopWhole serves a whole history through one call of engine.Loop on a long-lived engine (first input as the
// initial one, the rest as lines of the reader) and returns everything Loop wrote, and its error.
func LoopWhole(a *App, cfg Config, hist []string) (out string, errs string, pan string) {
	res := NewRecRes(a)
	st := state.NewState(cfg.FlagCount)
	ca := cache.NewCache()
	if cfg.CacheSize > 0 {
		ca = ca.WithCacheSize(cfg.CacheSize)
	}
	var buf bytes.Buffer
	pv, _ := vk.Guard(func() {
		en := engine.NewEngine(cfg.Engine(), res).WithState(st).WithMemory(ca)
		if cfg.First && a.Funcs["_first"] != nil {
			en = en.WithFirst(res.FirstFunc())
		}
		var lines bytes.Buffer
		for _, in := range hist[1:] {
			lines.WriteString(in + "\n")
		}
		if err := engine.Loop(context.Background(), en, &lines, &buf, []byte(hist[0])); err != nil {
			errs = err.Error()
		}
	})
	if pv != nil {
		pan = fmt.Sprint(pv)
	}
	return buf.String(), errs, pan
}

// LoopRequest serves one request the way dev/interactive does with a persister: a new engine, engine.Loop with the
// input as the initial one and nothing to read; Loop finishes the engine itself.
func LoopRequest(a *App, cfg Config, b *Backend, res *RecRes, input string) (out string, errs string, pan string) {
	store, err := b.Handle()
	if err != nil {
		return "", "harness: " + err.Error(), ""
	}
	var buf bytes.Buffer
	pv, _ := vk.Guard(func() {
		if cfg.StoreSession {
			store.SetSession(cfg.SessionId)
		}
		if cfg.FuncUsesStore {
			res.Store = store
		}
		en := engine.NewEngine(cfg.Engine(), res).WithPersister(persist.NewPersister(store))
		if cfg.First && a.Funcs["_first"] != nil {
			en = en.WithFirst(res.FirstFunc())
		}
		if err := engine.Loop(context.Background(), en, bytes.NewReader(nil), &buf, []byte(input)); err != nil {
			errs = err.Error()
		}
	})
	if pv != nil {
		pan = fmt.Sprint(pv)
	}
	if b.Kind != "mem" {
		vk.Guard(func() { store.Close(context.Background()) })
	}
	return buf.String(), errs, pan
}
