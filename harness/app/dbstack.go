package app

import (
	"bytes"
	"context"
	"fmt"
	"sort"

	"git.defalsify.org/vise.git/cache"
	"git.defalsify.org/vise.git/db"
	"git.defalsify.org/vise.git/engine"
	"git.defalsify.org/vise.git/lang"
	"git.defalsify.org/vise.git/persist"
	"git.defalsify.org/vise.git/resource"
	"git.defalsify.org/vise.git/state"

	"verif/harness/vk"
)

// DbStack serves an application the way the repository's examples deploy one: bytecode, templates (with their
// translations) and menu labels live in a key-value store behind resource.DbResource, external functions are
// registered with AddLocalFunc, and the session is either kept by one long-lived engine or persisted per request
// in a second store.
type DbStack struct {
	Cfg     Config
	A       *App
	Res     *RecRes // only its deterministic functions and call counters are used
	RB      *Backend
	SB      *Backend // session store (per-request operation); nil = long-lived
	rs      *resource.DbResource
	en      *engine.DefaultEngine
	Skipped []string
	// SameStore: the session is persisted per request through the very handle the resource reads from
	SameStore bool
}

// FillResourceStore writes the application into store; languages that are not ISO-639 codes are skipped.
func FillResourceStore(a *App, store db.Db) (skipped []string, err error) {
	ctx := context.Background()
	store.SetLock(db.DATATYPE_BIN|db.DATATYPE_TEMPLATE|db.DATATYPE_MENU|db.DATATYPE_STATICLOAD, false)
	put := func(typ uint8, l *lang.Language, key string, val []byte) {
		if err != nil {
			return
		}
		store.SetPrefix(typ)
		store.SetLanguage(l)
		err = store.Put(ctx, []byte(key), append([]byte{}, val...))
	}
	names := make([]string, 0, len(a.Nodes))
	for n := range a.Nodes {
		names = append(names, n)
	}
	sort.Strings(names)
	for _, n := range names {
		code, _ := a.CodeOf(n)
		put(db.DATATYPE_BIN, nil, n, code)
		put(db.DATATYPE_TEMPLATE, nil, n, []byte(a.Nodes[n].Template))
	}
	// static loads: functions whose content lives in the store, with translations
	syms := make([]string, 0, len(a.Funcs))
	for n, f := range a.Funcs {
		if f.Kind == "static" {
			syms = append(syms, n)
		}
	}
	sort.Strings(syms)
	for _, n := range syms {
		f := a.Funcs[n]
		// every other static load is kept under the legacy name <sym>.txt (what the old FsResource wrote, and what
		// DbResource still falls back to), with its translations
		name := n
		if vk.Hash64("legacy-name", n)%2 == 0 {
			name = n + ".txt"
		}
		put(db.DATATYPE_STATICLOAD, nil, name, []byte(f.Fixed))
		codes := make([]string, 0, len(f.Trans))
		for code := range f.Trans {
			codes = append(codes, code)
		}
		sort.Strings(codes)
		for _, code := range codes {
			if ln, lerr := lang.LanguageFromCode(code); lerr == nil && ln.Code == code {
				put(db.DATATYPE_STATICLOAD, &ln, name, []byte(f.Trans[code]))
			}
		}
	}
	labels := make([]string, 0, len(a.Labels))
	for l := range a.Labels {
		labels = append(labels, l)
	}
	sort.Strings(labels)
	for _, l := range labels {
		put(db.DATATYPE_MENU, nil, l+"_menu", []byte(a.Labels[l]))
	}
	langs := make([]string, 0, len(a.Trans))
	for l := range a.Trans {
		langs = append(langs, l)
	}
	sort.Strings(langs)
	for _, code := range langs {
		ln, lerr := lang.LanguageFromCode(code)
		if lerr != nil || ln.Code != code {
			skipped = append(skipped, code)
			continue
		}
		keys := make([]string, 0, len(a.Trans[code]))
		for k := range a.Trans[code] {
			keys = append(keys, k)
		}
		sort.Strings(keys)
		for _, k := range keys {
			v := a.Trans[code][k]
			switch k[:2] {
			case "t:":
				if _, ok := a.Nodes[k[2:]]; ok {
					put(db.DATATYPE_TEMPLATE, &ln, k[2:], []byte(v))
				}
			case "m:":
				put(db.DATATYPE_MENU, &ln, k[2:]+"_menu", []byte(v))
			}
		}
	}
	store.SetLanguage(nil)
	return skipped, err
}

func NewDbStack(a *App, cfg Config, resourceKind, sessionKind string) (*DbStack, error) {
	d := &DbStack{Cfg: cfg, A: a, Res: NewRecRes(a)}
	var err error
	if d.RB, err = NewBackend(resourceKind); err != nil {
		return nil, err
	}
	w, err := d.RB.Handle()
	if err != nil {
		return nil, err
	}
	if d.Skipped, err = FillResourceStore(a, w); err != nil {
		return nil, fmt.Errorf("filling the resource store: %v", err)
	}
	if resourceKind != "mem" {
		w.Close(context.Background())
	}
	if sessionKind == "same" {
		d.SameStore = true
	} else if sessionKind != "" {
		if d.SB, err = NewBackend(sessionKind); err != nil {
			return nil, err
		}
	}
	return d, nil
}

func (d *DbStack) resource() (*resource.DbResource, db.Db, error) {
	h, err := d.RB.Handle()
	if err != nil {
		return nil, nil, err
	}
	h.SetLock(db.DATATYPE_BIN|db.DATATYPE_TEMPLATE|db.DATATYPE_MENU|db.DATATYPE_STATICLOAD, true)
	rs := resource.NewDbResource(h).With(db.DATATYPE_STATICLOAD)
	names := make([]string, 0, len(d.A.Funcs))
	for n := range d.A.Funcs {
		names = append(names, n)
	}
	sort.Strings(names)
	for _, n := range names {
		if n == "_first" || d.A.Funcs[n].Kind == "static" {
			continue // static loads are resolved from the store
		}
		fn, _ := d.Res.FuncFor(context.Background(), n)
		rs.AddLocalFunc(n, fn)
	}
	d.Res.Take()
	return rs, h, nil
}

func (d *DbStack) Request(input []byte) *Obs {
	o := &Obs{Input: string(input)}
	ctx := context.Background()
	var sstore db.Db
	pv, stack := vk.Guard(func() {
		en := d.en
		if en == nil {
			rs, rh, err := d.resource()
			if err != nil {
				o.ExecErr = "harness: " + err.Error()
				return
			}
			d.rs = rs
			en = engine.NewEngine(d.Cfg.Engine(), rs)
			if d.SameStore {
				// all local data in one db.Db (examples/db): the handle that serves code, templates and labels also holds the session
				en = en.WithPersister(persist.NewPersister(rh))
			} else if d.SB != nil {
				var err error
				if sstore, err = d.SB.Handle(); err != nil {
					o.ExecErr = "harness: " + err.Error()
					return
				}
				en = en.WithPersister(persist.NewPersister(sstore))
			} else {
				ca := cache.NewCache()
				if d.Cfg.CacheSize > 0 {
					ca = ca.WithCacheSize(d.Cfg.CacheSize)
				}
				en = en.WithState(state.NewState(d.Cfg.FlagCount)).WithMemory(ca)
				d.en = en
			}
			if d.Cfg.First && d.A.Funcs["_first"] != nil {
				en = en.WithFirst(d.Res.FirstFunc())
			}
		}
		cont, err := en.Exec(ctx, input)
		o.Cont = cont
		if err != nil {
			o.ExecErr = err.Error()
		}
		if err == nil {
			var buf bytes.Buffer
			n, ferr := en.Flush(ctx, &buf)
			o.Flushed = true
			o.FlushN = n
			o.Out = buf.String()
			if ferr != nil {
				o.FlushErr = ferr.Error()
			}
		}
		if d.SB != nil || d.SameStore {
			if ferr := en.Finish(ctx); ferr != nil {
				o.FinishErr = ferr.Error()
			}
		}
	})
	o.Events = d.Res.Take()
	if pv != nil {
		o.Panic = fmt.Sprint(pv)
		o.PanicSig = vk.PanicSig(pv, stack)
	}
	if sstore != nil && d.SB.Kind != "mem" {
		vk.Guard(func() { sstore.Close(ctx) })
	}
	return o
}

func (d *DbStack) Close() {
	if d.en != nil {
		vk.Guard(func() { d.en.Finish(context.Background()) })
	}
	if d.RB != nil {
		d.RB.Cleanup()
	}
	if d.SB != nil {
		d.SB.Cleanup()
	}
}
