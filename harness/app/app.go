// Package app holds the harness's application model: nodes (instruction list + template), deterministic
// external-function specs, labels and translations; a recording resource.Resource built from it; and the
// drivers that serve a session through the real engine.
package app

import (
	"fmt"
	"sort"
	"strings"

	"verif/harness/codec"
)

type Node struct {
	Name     string      `json:"name"`
	Code     []codec.Ins `json:"-"`
	Template string      `json:"template"`
	Listing  []string    `json:"code"`
}

// FuncSpec describes a deterministic external function: its result is a pure function of
// (symbol, per-session call number, input, language).
type FuncSpec struct {
	Sym  string `json:"sym"`
	Kind string `json:"kind"` // id | fixed | rows | empty | len | lang | echo
	// fixed content / rows joined by \n / language codes cycled by call number
	Fixed string   `json:"fixed,omitempty"`
	Rows  []string `json:"rows,omitempty"`
	Lens  []int    `json:"lens,omitempty"`  // Kind len: content length per call number (cycled)
	Codes []string `json:"codes,omitempty"` // Kind lang
	// flags requested on every call (cycled lists when several)
	FlagSet   [][]uint32 `json:"flag_set,omitempty"`
	FlagReset [][]uint32 `json:"flag_reset,omitempty"`
	// ErrOn: call numbers (1-based, cycled with period ErrPeriod) on which the function returns an error
	ErrOn     []int `json:"err_on,omitempty"`
	ErrPeriod int   `json:"err_period,omitempty"`
	Status    int   `json:"status,omitempty"`
	// Latin1: some results of a "len" function are padded with bytes that are not valid UTF-8
	Latin1 bool `json:"latin1,omitempty"`
	// Trans: Kind static - content per language code (a static load: Fixed is the default-language entry); the
	// DbResource deployment keeps these in the store (DATATYPE_STATICLOAD) instead of registering a function
	Trans map[string]string `json:"trans,omitempty"`
}

// FuncResult is what a call returns.
type FuncResult struct {
	Content   string
	FlagSet   []uint32
	FlagReset []uint32
	Err       bool
	Status    int
}

// Result computes the n-th (1-based) call's result.
func (f *FuncSpec) Result(n int, input []byte, lang string) FuncResult {
	var r FuncResult
	if len(f.ErrOn) > 0 {
		k := n
		if f.ErrPeriod > 0 {
			k = (n-1)%f.ErrPeriod + 1
		}
		for _, e := range f.ErrOn {
			if e == k {
				r.Err = true
				r.Status = f.Status
				return r
			}
		}
	}
	switch f.Kind {
	case "id":
		r.Content = fmt.Sprintf("%s#%d", f.Sym, n)
	case "fixed":
		r.Content = f.Fixed
	case "static":
		r.Content = f.Fixed
		if t, ok := f.Trans[lang]; ok {
			r.Content = t
		}
	case "rows":
		r.Content = strings.Join(f.Rows, "\n")
	case "empty":
		r.Content = ""
	case "len":
		l := f.Lens[(n-1)%len(f.Lens)]
		r.Content = idPadded(f.Sym, n, l, f.Latin1)
	case "lang":
		r.Content = f.Codes[(n-1)%len(f.Codes)]
	case "echo":
		r.Content = fmt.Sprintf("%s#%d<%s>", f.Sym, n, string(input))
	case "idlang":
		r.Content = fmt.Sprintf("%s#%d@%s", f.Sym, n, lang)
	}
	if len(f.FlagSet) > 0 {
		r.FlagSet = f.FlagSet[(n-1)%len(f.FlagSet)]
	}
	if len(f.FlagReset) > 0 {
		r.FlagReset = f.FlagReset[(n-1)%len(f.FlagReset)]
	}
	return r
}

// idPadded returns a string of exactly l bytes that starts with "<sym>#<n>" when it fits.
func idPadded(sym string, n, l int, latin1 bool) string {
	id := fmt.Sprintf("%s#%d", sym, n)
	if l <= 0 {
		return ""
	}
	if len(id) >= l {
		return id[:l]
	}
	pad := l - len(id)
	if (n+l)%3 == 0 {
		// multi-byte padding: limits count bytes, not characters
		return id + strings.Repeat("é", pad/2) + strings.Repeat("=", pad%2)
	}
	if latin1 && (n+l)%3 == 1 {
		// bytes that are not UTF-8 (Latin-1 text from a legacy backend): content is bytes to the library
		return id + strings.Repeat("\xe9", pad)
	}
	return id + strings.Repeat("=", pad)
}

// App is a whole application.
type App struct {
	Nodes  map[string]*Node     `json:"nodes"`
	Order  []string             `json:"-"`
	Funcs  map[string]*FuncSpec `json:"funcs"`
	Labels map[string]string    `json:"labels,omitempty"` // menu label -> default text (absent: label itself)
	// translations: lang code -> "t:<node>" / "m:<label>" / "f:<sym>" -> text
	Trans     map[string]map[string]string `json:"trans,omitempty"`
	Root      string                       `json:"root"`
	FlagCount uint32                       `json:"flag_count"`
	// encoded bytecode per node (shared slices with spare capacity filled with a canary)
	code map[string][]byte
}

const CanaryByte = 0xA7
const CanaryLen = 96

func NewApp() *App {
	return &App{Nodes: map[string]*Node{}, Funcs: map[string]*FuncSpec{}, Labels: map[string]string{}, Trans: map[string]map[string]string{}, Root: "root"}
}

func (a *App) AddNode(n *Node) {
	a.Nodes[n.Name] = n
	a.Order = append(a.Order, n.Name)
}

// Finalize encodes all nodes through the library's encoder into shared slices with canary-filled spare capacity.
func (a *App) Finalize() {
	a.code = map[string][]byte{}
	for name, n := range a.Nodes {
		enc := codec.EncodeAll(n.Code)
		buf := make([]byte, len(enc), len(enc)+CanaryLen)
		copy(buf, enc)
		full := buf[:cap(buf)]
		for i := len(enc); i < len(full); i++ {
			full[i] = CanaryByte
		}
		a.code[name] = buf
		n.Listing = codec.Strings(n.Code)
	}
}

// CodeOf returns the shared code slice of a node (len = code, cap = code + canary).
func (a *App) CodeOf(name string) ([]byte, bool) {
	b, ok := a.code[name]
	return b, ok
}

// CheckCanaries verifies that no shared code slice was modified, over its full capacity.
func (a *App) CheckCanaries() error {
	names := make([]string, 0, len(a.code))
	for n := range a.code {
		names = append(names, n)
	}
	sort.Strings(names)
	for _, name := range names {
		buf := a.code[name]
		enc := codec.EncodeAll(a.Nodes[name].Code)
		if string(buf) != string(enc) {
			return fmt.Errorf("code of node %q was modified in place", name)
		}
		full := buf[:cap(buf)]
		for i := len(buf); i < len(full); i++ {
			if full[i] != CanaryByte {
				return fmt.Errorf("spare capacity of the code slice of node %q was written at offset +%d (0x%02x)", name, i-len(buf), full[i])
			}
		}
	}
	return nil
}

// Template returns the template text for a node in a language ("" = default).
func (a *App) TemplateFor(node, lang string) (string, bool) {
	n, ok := a.Nodes[node]
	if !ok {
		return "", false
	}
	if lang != "" {
		if t, ok := a.Trans[lang]["t:"+node]; ok {
			return t, true
		}
	}
	return n.Template, true
}

// LabelFor returns the menu text for a label in a language.
func (a *App) LabelFor(label, lang string) string {
	if lang != "" {
		if t, ok := a.Trans[lang]["m:"+label]; ok {
			return t
		}
	}
	if t, ok := a.Labels[label]; ok {
		return t
	}
	return label
}

func (a *App) Describe() map[string]interface{} {
	nodes := map[string]interface{}{}
	for name, n := range a.Nodes {
		nodes[name] = map[string]interface{}{"code": codec.Strings(n.Code), "template": n.Template}
	}
	return map[string]interface{}{"root": a.Root, "flag_count": a.FlagCount, "nodes": nodes, "funcs": a.Funcs, "labels": a.Labels, "trans": a.Trans}
}
