package app

import (
	"context"
	"fmt"
	"git.defalsify.org/vise.git/db"

	"git.defalsify.org/vise.git/lang"
	"git.defalsify.org/vise.git/resource"
)

// Event is one call the library made into application code.
type Event struct {
	Kind    string `json:"k"` // code | template | menu | funcfor | call
	Sym     string `json:"s"`
	Lang    string `json:"l,omitempty"`
	Session string `json:"sid,omitempty"`
	Input   string `json:"in,omitempty"`
	Res     string `json:"res,omitempty"` // call: content id (truncated)
}

func (e Event) String() string {
	s := e.Kind + ":" + e.Sym
	if e.Lang != "" {
		s += "@" + e.Lang
	}
	if e.Kind == "call" {
		s += fmt.Sprintf("(in=%q)", e.Input)
	}
	return s
}

// RecRes is a recording resource.Resource built from an App. It belongs to one session
// (per-session call counters); the App data it hands out is shared.
type RecRes struct {
	App    *App
	Calls  map[string]int
	Events []Event
	// Yield, if set, is called inside every callback (C19: widen interleavings where the library
	// already hands control to application code).
	Yield func()
	// FilterReserved removes flag indices < 8 other than TERMINATE(6)/LANG(7) from results (C06 two-run oracle).
	FilterReserved bool
	// MissingCodeIsError: unknown node -> error (default true)
	Closed int
	// MaxEvents caps the callbacks of one request (reset by Take); exceeding it panics with OpCapPanic.
	MaxEvents int
	// Failures counts the lookups and calls that this resource answered with an error
	Failures int
	// Store, if set, is the store handle that also holds the session (the "all local data in one db.Db" deployment of
	// examples/db): every external function keeps a note in it under the user-data type and leaves the handle that way
	Store db.Db
	// StoreLists: the functions also list their notes (Dump); set by the drivers on filesystem stores only
	StoreLists bool
	// OnCall, if set, runs inside every external function with the context the engine passed (application code that
	// logs with the session id from the context)
	OnCall func(ctx context.Context, sym string)
}

const OpCapPanic = "harness-op-cap: the request made more callbacks than the cap (runaway execution)"

func NewRecRes(a *App) *RecRes {
	return &RecRes{App: a, Calls: map[string]int{}, MaxEvents: 4000}
}

func ctxLang(ctx context.Context) string {
	if v := ctx.Value("Language"); v != nil {
		if l, ok := v.(lang.Language); ok {
			return l.Code
		}
		return fmt.Sprintf("?%T", v)
	}
	return ""
}

func ctxSession(ctx context.Context) string {
	if v, ok := ctx.Value("SessionId").(string); ok {
		return v
	}
	return ""
}

func (r *RecRes) rec(ctx context.Context, kind, sym string) string {
	if r.Yield != nil {
		r.Yield()
	}
	l := ctxLang(ctx)
	if r.MaxEvents > 0 && len(r.Events) >= r.MaxEvents {
		panic(OpCapPanic)
	}
	r.Events = append(r.Events, Event{Kind: kind, Sym: sym, Lang: l, Session: ctxSession(ctx)})
	return l
}

// Take returns and clears the recorded events.
func (r *RecRes) Take() []Event {
	e := r.Events
	r.Events = nil
	return e
}

func (r *RecRes) GetCode(ctx context.Context, sym string) ([]byte, error) {
	r.rec(ctx, "code", sym)
	b, ok := r.App.CodeOf(sym)
	if !ok {
		r.Failures++
		return nil, fmt.Errorf("no code for node %q", sym)
	}
	return b, nil
}

func (r *RecRes) GetTemplate(ctx context.Context, sym string) (string, error) {
	l := r.rec(ctx, "template", sym)
	t, ok := r.App.TemplateFor(sym, l)
	if !ok {
		r.Failures++
		return "", fmt.Errorf("no template for node %q", sym)
	}
	return t, nil
}

func (r *RecRes) GetMenu(ctx context.Context, sym string) (string, error) {
	l := r.rec(ctx, "menu", sym)
	return r.App.LabelFor(sym, l), nil
}

func (r *RecRes) FuncFor(ctx context.Context, sym string) (resource.EntryFunc, error) {
	r.rec(ctx, "funcfor", sym)
	f, ok := r.App.Funcs[sym]
	if !ok {
		r.Failures++
		return nil, fmt.Errorf("no function for symbol %q", sym)
	}
	return func(ctx context.Context, s string, input []byte) (resource.Result, error) {
		if r.Yield != nil {
			r.Yield()
		}
		if r.OnCall != nil {
			r.OnCall(ctx, sym)
		}
		l := ctxLang(ctx)
		r.Calls[sym]++
		n := r.Calls[sym]
		fr := f.Result(n, input, l)
		res := fr.Content
		if len(res) > 24 {
			res = res[:24]
		}
		r.Events = append(r.Events, Event{Kind: "call", Sym: sym, Lang: l, Session: ctxSession(ctx), Input: string(input), Res: res})
		if r.Store != nil {
			r.Store.SetPrefix(db.DATATYPE_USERDATA)
			r.Store.Put(ctx, []byte("note_"+sym), []byte(res))
			if r.StoreLists {
				// ... and list what they have kept so far (the session's own notes)
				if d, err := r.Store.Dump(ctx, []byte("note_")); err == nil {
					for k := 0; k < 1000; k++ {
						if kk, _ := d.Next(ctx); kk == nil {
							break
						}
					}
					d.Close()
				}
			}
		}
		if fr.Err {
			r.Failures++
			return resource.Result{Status: fr.Status}, fmt.Errorf("function %s failed on call %d", sym, n)
		}
		out := resource.Result{Content: fr.Content, Status: fr.Status}
		out.FlagSet = r.filter(fr.FlagSet)
		out.FlagReset = r.filter(fr.FlagReset)
		return out, nil
	}, nil
}

func (r *RecRes) filter(fl []uint32) []uint32 {
	if !r.FilterReserved {
		return append([]uint32{}, fl...)
	}
	var o []uint32
	for _, f := range fl {
		if f >= 8 || f == 6 || f == 7 {
			o = append(o, f)
		}
	}
	return o
}

func (r *RecRes) Close(ctx context.Context) error {
	r.Closed++
	return nil
}

// FirstFunc returns the application's "_first" function for Engine.WithFirst (recorded like any other call).
func (r *RecRes) FirstFunc() resource.EntryFunc {
	n := len(r.Events)
	fn, _ := r.FuncFor(context.Background(), "_first")
	r.Events = r.Events[:n] // the engine does not look the function up: no lookup event
	return fn
}
