package app

import (
	"fmt"
	"sort"
	"strings"

	"verif/harness/codec"
	"verif/harness/vk"
)

// Profile turns generator features on and off. Everything generated is well-formed in the sense of
// property C08: every move target exists, _catch exists, flags are in range, no node moves to itself,
// every cycle of moves passes a HALT, templates reference only symbols MAPped in every segment of the node,
// at most one sink per segment, MSINK never together with a mapped sink.
type Profile struct {
	MinNodes, MaxNodes int
	Sinks              bool // size-0 symbols, MSINK, MNEXT/MPREV
	Hostile            bool // functions ask for reserved flags too
	Terminate          bool // some function sets TERMINATE
	Lang               bool // language switchers and translations
	LoadErrors         bool // functions that fail on some calls
	BigValues          bool // results around the declared limit and >= 64 KiB
	Latin1             bool // some function results contain bytes that are not valid UTF-8 (text from a legacy backend)
	Croak              bool
	Catch              bool
	EndNodes           bool // nodes that end after HALT (graceful) or without one (terminate)
	MultiHalt          bool
	EarlyIncmp         bool // some nodes start with INCMP lines, in front of their first HALT (input handled on entry)
	Interleave         bool // non-INCMP instructions between INCMP lines
	TailMove           bool // MOVE after the INCMP list
	TailCall           bool // LOAD/RELOAD as the last instruction, behind the INCMP list
	CatchLoads         bool // a catch node that LOADs a symbol (needs CatchVariants)
	Relative           bool // _ ^ . > < targets
	EmptyResults       bool
	FlagCounts         []uint32
	NoTemplateValues   bool // templates without placeholders
	FixedSizes         bool // a symbol always has the same declared size
	CatchVariants      bool // _catch nodes other than the plain "back" one
	First              bool // the application has a "_first" function (installed when Config.First is set)
}

func DefaultProfile() Profile {
	return Profile{MinNodes: 3, MaxNodes: 7, Sinks: true, Catch: true, EndNodes: true, MultiHalt: true, Interleave: true, TailMove: true, Relative: true,
		LoadErrors: true, EmptyResults: true, Croak: false, FixedSizes: true, FlagCounts: []uint32{1, 4, 9, 16}}
}

var Selectors = []string{"0", "1", "2", "3", "9", "a", "b", "00", "11", "22"}

type gen struct {
	r      *vk.RNG
	p      Profile
	a      *App
	syms   []symInfo
	labels []string
	flags  []uint32
}

type symInfo struct {
	name string
	sink bool
	size uint32
}

// Generate builds an application.
func Generate(r *vk.RNG, p Profile) *App {
	g := &gen{r: r, p: p, a: NewApp()}
	a := g.a
	a.FlagCount = vk.Pick(r, p.FlagCounts)
	for i := uint32(0); i < a.FlagCount && i < 6; i++ {
		g.flags = append(g.flags, 8+i)
	}
	if a.FlagCount > 6 {
		g.flags = append(g.flags, 8+a.FlagCount-1)
	}
	nn := r.Range(p.MinNodes, p.MaxNodes)
	names := []string{"root"}
	for i := 1; i < nn; i++ {
		names = append(names, fmt.Sprintf("n%d", i))
	}
	if rt := vk.CaseRNG(0xca5e, fmt.Sprint(nn, p.MaxNodes, a.FlagCount, len(g.flags))); nn >= 3 && rt.Chance(1, 4) {
		// two nodes whose names differ only in letter case (n1 / N1): different nodes to the library, to the stores and
		// to the model (decided by a stream of its own, so that the rest of the generation is unchanged)
		names[2] = "N1"
	}
	// symbols
	ns := r.Range(2, 5)
	for i := 0; i < ns; i++ {
		si := symInfo{name: fmt.Sprintf("s%c", 'a'+i)}
		if p.Sinks && r.Chance(1, 4) {
			si.sink = true
		} else {
			si.size = uint32(vk.Pick(r, []int{8, 12, 20, 40, 64, 255, 256, 1000}))
		}
		g.syms = append(g.syms, si)
		a.Funcs[si.name] = g.funcSpec(si)
	}
	if p.Lang {
		si := symInfo{name: "slang", size: 16}
		g.syms = append(g.syms, si)
		codes := []string{}
		pool := []string{"nor", "eng", "swa", "fr", "de", "no", "xx", "zzz", "klingon", "", "fra", "fre", "ger", "dut", "NOR", "fra "}
		for k := 0; k < r.Range(1, 4); k++ {
			codes = append(codes, vk.Pick(r, pool))
		}
		a.Funcs["slang"] = &FuncSpec{Sym: "slang", Kind: "lang", Codes: codes, FlagSet: [][]uint32{{7}}}
	}
	if p.First {
		f := &FuncSpec{Sym: "_first", Kind: "id"}
		if len(g.flags) > 0 {
			f.FlagSet = [][]uint32{{vk.Pick(r, g.flags)}, {}, {vk.Pick(r, g.flags)}}
			f.FlagReset = [][]uint32{{}, {vk.Pick(r, g.flags)}}
		}
		if p.Hostile {
			f.FlagSet = append(f.FlagSet, []uint32{uint32(r.Intn(6)), 8})
		}
		if p.Terminate && r.Chance(1, 3) {
			k := r.Range(2, 6)
			sets := make([][]uint32, k)
			sets[k-1] = []uint32{6}
			if p.Hostile {
				sets[k-1] = []uint32{uint32(r.Intn(6)), 6} // a reserved flag in front of TERMINATE
			}
			f.FlagSet = sets
		}
		if p.LoadErrors && r.Chance(1, 5) {
			f.ErrOn = []int{r.Range(2, 4)}
			f.ErrPeriod = 5
		}
		a.Funcs["_first"] = f
	}
	nl := r.Range(2, 5)
	for i := 0; i < nl; i++ {
		l := fmt.Sprintf("l%c", 'a'+i)
		g.labels = append(g.labels, l)
		if r.Chance(1, 2) {
			a.Labels[l] = fmt.Sprintf("Label %c", 'A'+i)
		}
	}
	for i, name := range names {
		a.AddNode(g.node(i, name, names))
	}
	a.AddNode(g.catchNode(names))
	if p.Lang {
		for _, lc := range []string{"nor", "swa", "fra"} {
			m := map[string]string{}
			for _, n := range a.Order {
				if r.Chance(1, 2) {
					// a translation keeps the same placeholders
					m["t:"+n] = "[" + lc + "]" + a.Nodes[n].Template
				}
			}
			for _, l := range g.labels {
				if r.Chance(1, 2) {
					m["m:"+l] = lc + "-" + l
				}
			}
			a.Trans[lc] = m
		}
		// half of the applications also carry entries for the library's default language code: an application whose
		// plain entries are in another language stores its English texts as translations like any other (a stream of
		// its own, so that the rest of the generation is unchanged)
		if re := vk.CaseRNG(0xe96, strings.Join(a.Order, ",")+fmt.Sprint(len(g.labels), len(g.syms))); re.Bool() {
			m := map[string]string{}
			for _, n := range a.Order {
				if re.Bool() {
					m["t:"+n] = "[eng]" + a.Nodes[n].Template
				}
			}
			for _, l := range g.labels {
				if re.Bool() {
					m["m:"+l] = "eng-" + l
				}
			}
			a.Trans["eng"] = m
		}
	}
	if p.Sinks {
		// labels (and translations) of the browse entries: their own random stream, derived from the application, so
		// that the rest of the generation is what it was before they existed
		var sb strings.Builder
		for _, n := range a.Order {
			sb.WriteString(n + "\x00" + a.Nodes[n].Template + "\x00")
		}
		rb := vk.CaseRNG(0xb20e5e, sb.String())
		for _, l := range []string{"lnext", "lprev"} {
			if rb.Chance(2, 3) {
				a.Labels[l] = vk.Pick(rb, []string{"n", "next", "more >>", "Next page", "back", "previous page", "следующая страница", "ቀጣይ ገጽ", "次のページ"})
			}
			for _, lc := range []string{"nor", "swa", "fra"} {
				if a.Trans[lc] != nil && rb.Chance(1, 2) {
					a.Trans[lc]["m:"+l] = vk.Pick(rb, []string{lc, lc + "-" + l, lc + " neste side / ukurasa", "»", lc + " предыдущая", "التالي " + lc})
				}
			}
		}
	}
	a.Finalize()
	return a
}

func (g *gen) funcSpec(si symInfo) *FuncSpec {
	r, p := g.r, g.p
	f := &FuncSpec{Sym: si.name, Kind: "id"}
	if si.sink {
		f.Kind = "rows"
		n := r.Range(0, 12)
		for i := 0; i < n; i++ {
			row := fmt.Sprintf("%s.r%d", si.name, i)
			if r.Chance(1, 4) {
				row += strings.Repeat("x", r.Range(1, 14))
			}
			if p.Latin1 && i%3 == 1 {
				row += "\xe9\xf1" // not UTF-8
			}
			if r.Chance(1, 12) {
				row = ""
			}
			f.Rows = append(f.Rows, row)
		}
		return f
	}
	switch r.Intn(8) {
	case 0:
		f.Kind = "fixed"
		f.Fixed = vk.Pick(r, []string{"foo", "bar baz", "two\nlines", "x"})
		if p.Lang {
			// ordinary values that happen to spell a language code (a yes/no answer, a count)
			f.Fixed = vk.Pick(r, []string{"foo", "bar baz", "two\nlines", "x", "no", "bar", "one", "two", "yes"})
		}
	case 1:
		if p.EmptyResults {
			f.Kind = "len"
			f.Lens = []int{int(si.size) / 2, 0, 5}
		}
	case 2:
		if p.BigValues {
			f.Kind = "len"
			f.Lens = []int{int(si.size), int(si.size) - 1, int(si.size) + 1, 4, 65536 + int(si.size) - 1, 65536 + int(si.size) + 3, 70000}
			vk.Shuffle(r, f.Lens)
		}
	case 3:
		f.Kind = "echo"
	case 4:
		if p.Lang {
			f.Kind = "idlang" // the result depends on the language the function is called with
		}
	case 5:
		if p.Lang {
			// more fixed values where languages matter (half of them become static loads below); the value comes
			// from a stream of its own
			f.Kind = "fixed"
			f.Fixed = vk.Pick(vk.CaseRNG(0x57a71d, fmt.Sprintf("%s/%d", f.Sym, len(g.syms))), []string{"static text", "a longer static text of 40 bytes, roughly", "s", "first\nsecond"})
		}
	}
	if p.Latin1 {
		if f.Kind == "id" || f.Kind == "" {
			f.Kind = "len"
			f.Lens = []int{int(si.size) / 2, int(si.size), 7, 12}
		}
		f.Latin1 = f.Kind == "len"
	}
	if len(g.flags) > 0 && r.Chance(1, 2) {
		for k := 0; k < r.Range(1, 3); k++ {
			var set, reset []uint32
			for j := 0; j < r.Intn(3); j++ {
				set = append(set, vk.Pick(r, g.flags))
			}
			for j := 0; j < r.Intn(2); j++ {
				reset = append(reset, vk.Pick(r, g.flags))
			}
			if p.Hostile {
				for j := 0; j < r.Range(1, 4); j++ {
					if r.Bool() {
						set = append(set, uint32(r.Intn(6)))
					} else {
						reset = append(reset, uint32(r.Intn(6)))
					}
				}
				// reserved indices anywhere in the lists, also in front of the flags that may be written
				vk.Shuffle(r, set)
				vk.Shuffle(r, reset)
			}
			f.FlagSet = append(f.FlagSet, set)
			f.FlagReset = append(f.FlagReset, reset)
		}
	} else if p.Hostile {
		f.FlagSet = [][]uint32{{uint32(r.Intn(6)), uint32(r.Intn(6))}}
		f.FlagReset = [][]uint32{{uint32(r.Intn(6))}}
	}
	if p.Terminate && r.Chance(1, 6) {
		// sets TERMINATE on the k-th call
		k := r.Range(1, 4)
		sets := make([][]uint32, k)
		sets[k-1] = []uint32{6}
		if p.Hostile {
			sets[k-1] = []uint32{uint32(r.Intn(6)), 6} // a reserved flag in front of TERMINATE: skipped, the rest applies
		}
		f.FlagSet = sets
		f.FlagReset = nil
	}
	if p.LoadErrors && r.Chance(1, 6) {
		f.ErrOn = []int{r.Range(1, 3)}
		f.ErrPeriod = r.Range(2, 4)
		f.Status = r.Intn(5)
	}
	if p.Lang && f.Kind == "fixed" && len(f.FlagSet) == 0 && len(f.FlagReset) == 0 && len(f.ErrOn) == 0 {
		// half of the plain fixed values are static loads with translations (decided by a stream of their own, so
		// that the rest of the generation is what it was before they existed)
		rs := vk.CaseRNG(0x57a71c, fmt.Sprintf("%s/%s/%d/%d", f.Sym, f.Fixed, len(g.syms), len(g.labels)))
		if rs.Bool() {
			f.Kind = "static"
			f.Trans = map[string]string{}
			for _, lc := range []string{"nor", "swa", "fra"} {
				if rs.Bool() {
					f.Trans[lc] = "[" + lc + "]" + f.Fixed
				}
			}
		}
	}
	return f
}

func (g *gen) pickFlag() (uint32, bool) {
	if len(g.flags) == 0 {
		return 0, false
	}
	return vk.Pick(g.r, g.flags), true
}

func (g *gen) node(i int, name string, names []string) *Node {
	r, p := g.r, g.p
	n := &Node{Name: name}
	var code []codec.Ins
	// end nodes
	if p.EndNodes && i > 0 && r.Chance(1, 7) {
		// graceful (HALT last) or abnormal (no HALT)
		loaded := g.loads(&code, r.Intn(3))
		mapped := g.maps(&code, loaded, true)
		n.Template = g.template(name, mapped)
		if r.Chance(2, 3) {
			code = append(code, codec.Ins{Op: codec.HALT})
		} else {
			n.Template = "end " + name
		}
		n.Code = code
		return n
	}
	// input handling in front of the first HALT: skipped when the node is entered by a matched INCMP (directly, or through
	// a CATCH that fired afterwards), live when it is entered with the input still unmatched
	if p.EarlyIncmp && i > 0 && r.Chance(1, 4) {
		for k := 0; k < r.Range(1, 2); k++ {
			sel := vk.Pick(r, Selectors[:r.Range(3, len(Selectors))])
			if r.Chance(1, 3) {
				sel = "*"
			}
			code = append(code, codec.Ins{Op: codec.INCMP, S1: g.target(i, name, names), S2: sel})
		}
	}
	// prelude
	if p.Catch && i+1 < len(names) && r.Chance(1, 4) {
		if f, ok := g.pickFlag(); ok {
			code = append(code, codec.Ins{Op: codec.CATCH, S1: names[r.Range(i+1, len(names)-1)], N: f, Mode: r.Chance(3, 4)})
		}
	}
	if p.Croak && r.Chance(1, 8) {
		if f, ok := g.pickFlag(); ok {
			code = append(code, codec.Ins{Op: codec.CROAK, N: f, Mode: r.Chance(3, 4)})
		}
	}
	loaded := g.loads(&code, r.Intn(4))
	if len(loaded) > 0 && r.Chance(1, 4) {
		code = append(code, codec.Ins{Op: codec.RELOAD, S1: vk.Pick(r, loaded).name})
	}
	// template placeholders: chosen once, mapped in every segment
	var tplSyms []symInfo
	haveSink := false
	for _, s := range loaded {
		if s.sink {
			if haveSink {
				continue
			}
			if !r.Chance(2, 3) {
				continue
			}
			haveSink = true
			tplSyms = append(tplSyms, s)
		} else if r.Chance(2, 3) {
			tplSyms = append(tplSyms, s)
		}
	}
	if p.NoTemplateValues {
		tplSyms = nil
		haveSink = false
	}
	n.Template = g.template(name, tplSyms)
	nseg := 1
	if p.MultiHalt && r.Chance(1, 4) {
		nseg = 2
	}
	msink := p.Sinks && !haveSink && r.Chance(1, 6)
	for seg := 0; seg < nseg; seg++ {
		for _, s := range tplSyms {
			code = append(code, codec.Ins{Op: codec.MAP, S1: s.name})
		}
		// INCMP plan
		ninc := r.Range(1, 6)
		type inc struct{ target, sel string }
		var incs []inc
		for k := 0; k < ninc; k++ {
			t := g.target(i, name, names)
			sel := vk.Pick(r, Selectors[:r.Range(3, len(Selectors))])
			if r.Chance(1, 10) {
				sel = "*"
			}
			incs = append(incs, inc{t, sel})
		}
		// menu
		for _, ic := range incs {
			if ic.sel != "*" && r.Chance(3, 4) {
				code = append(code, codec.Ins{Op: codec.MOUT, S1: vk.Pick(r, g.labels), S2: ic.sel})
			}
		}
		browse := false
		if p.Sinks && (haveSink || msink) && r.Chance(4, 5) {
			browse = true
			code = append(code, codec.Ins{Op: codec.MNEXT, S1: "lnext", S2: "11"})
			if r.Chance(4, 5) {
				code = append(code, codec.Ins{Op: codec.MPREV, S1: "lprev", S2: "22"})
			}
		}
		if msink {
			code = append(code, codec.Ins{Op: codec.MSINK})
		}
		code = append(code, codec.Ins{Op: codec.HALT})
		if browse {
			pos := r.Intn(len(incs) + 1)
			b := []inc{{">", "11"}, {"<", "22"}}
			incs = append(incs[:pos], append(b, incs[pos:]...)...)
		}
		for _, ic := range incs {
			if p.Interleave && r.Chance(1, 8) {
				switch r.Intn(3) {
				case 0:
					if len(loaded) > 0 {
						code = append(code, codec.Ins{Op: codec.RELOAD, S1: vk.Pick(r, loaded).name})
					}
				case 1:
					g.loads(&code, 1)
				case 2:
					code = append(code, codec.Ins{Op: codec.MOUT, S1: vk.Pick(r, g.labels), S2: "7"})
				}
			}
			code = append(code, codec.Ins{Op: codec.INCMP, S1: ic.target, S2: ic.sel})
		}
		if p.Catch && p.Relative && r.Chance(1, 10) {
			if f, ok := g.pickFlag(); ok {
				code = append(code, codec.Ins{Op: codec.CATCH, S1: vk.Pick(r, []string{"_", "^", "."}), N: f, Mode: true})
			}
		}
	}
	if p.TailCall && r.Chance(1, 4) {
		// an external call is the last thing the node does when no INCMP matched (or it ends the node outright)
		if len(loaded) > 0 && r.Bool() {
			code = append(code, codec.Ins{Op: codec.RELOAD, S1: vk.Pick(r, loaded).name})
		} else {
			g.loads(&code, 1)
		}
	}
	if p.TailMove && r.Chance(1, 6) {
		code = append(code, codec.Ins{Op: codec.MOVE, S1: g.target(i, name, names)})
	}
	n.Code = code
	return n
}

// loads appends LOAD instructions for k random symbols and returns them.
func (g *gen) loads(code *[]codec.Ins, k int) []symInfo {
	r := g.r
	var out []symInfo
	seen := map[string]bool{}
	for j := 0; j < k; j++ {
		s := vk.Pick(r, g.syms)
		if seen[s.name] {
			continue
		}
		seen[s.name] = true
		size := s.size
		if !g.p.FixedSizes && !s.sink && r.Chance(1, 3) {
			size = uint32(vk.Pick(r, []int{1, 5, 16, 300, 65535}))
		}
		*code = append(*code, codec.Ins{Op: codec.LOAD, S1: s.name, N: size})
		out = append(out, s)
	}
	return out
}

func (g *gen) maps(code *[]codec.Ins, loaded []symInfo, emit bool) []symInfo {
	var mapped []symInfo
	haveSink := false
	for _, s := range loaded {
		if s.sink {
			if haveSink {
				continue
			}
			haveSink = true
		}
		if g.r.Chance(2, 3) {
			mapped = append(mapped, s)
			if emit {
				*code = append(*code, codec.Ins{Op: codec.MAP, S1: s.name})
			}
		}
	}
	return mapped
}

func (g *gen) template(name string, syms []symInfo) string {
	var sb strings.Builder
	sb.WriteString("node " + name)
	for _, s := range syms {
		if s.sink {
			sb.WriteString("\n{{." + s.name + "}}")
		} else {
			sb.WriteString(" " + s.name + "={{." + s.name + "}}")
		}
	}
	return sb.String()
}

func (g *gen) target(i int, self string, names []string) string {
	r := g.r
	if g.p.Relative && r.Chance(1, 3) {
		return vk.Pick(r, []string{"_", "_", "^", ".", ">", "<"})
	}
	for {
		t := vk.Pick(r, names)
		if t != self {
			return t
		}
		if len(names) == 1 {
			return "_"
		}
	}
}

func (g *gen) catchNode(names []string) *Node {
	r := g.r
	n := &Node{Name: "_catch", Template: "catch page"}
	variant := 0
	if g.p.CatchVariants {
		variant = r.Intn(6)
		if g.p.EndNodes && r.Chance(1, 3) {
			variant = 6 + r.Intn(2) // the error handler is itself an end node
		}
		if g.p.CatchLoads && len(g.syms) > 0 && r.Chance(1, 4) {
			variant = 8 // the error handler loads a symbol itself (and that load may fail)
		}
	}
	switch variant {
	case 0:
		n.Code = []codec.Ins{{Op: codec.MOUT, S1: "lback", S2: "0"}, {Op: codec.HALT}, {Op: codec.INCMP, S1: "_", S2: "*"}}
	case 1:
		n.Code = []codec.Ins{{Op: codec.MOUT, S1: "lback", S2: "0"}, {Op: codec.HALT}, {Op: codec.INCMP, S1: "_", S2: "0"}, {Op: codec.INCMP, S1: "^", S2: "*"}}
	case 2:
		n.Code = []codec.Ins{{Op: codec.HALT}, {Op: codec.INCMP, S1: "_", S2: "0"}}
	case 3:
		n.Code = []codec.Ins{{Op: codec.MOUT, S1: "lback", S2: "0"}, {Op: codec.HALT}, {Op: codec.MOVE, S1: "_"}}
	case 4:
		n.Code = []codec.Ins{{Op: codec.HALT}, {Op: codec.MOVE, S1: "_"}} // six bytes of code
	case 5:
		n.Code = []codec.Ins{{Op: codec.HALT}, {Op: codec.MOVE, S1: "^"}}
	case 6:
		n.Code = []codec.Ins{{Op: codec.MOUT, S1: "lback", S2: "0"}} // ends without HALT
	case 7:
		n.Code = []codec.Ins{} // a page and nothing else
	case 8:
		sy := vk.Pick(r, g.syms)
		if sy.sink {
			n.Code = []codec.Ins{{Op: codec.MOUT, S1: "lback", S2: "0"}, {Op: codec.HALT}, {Op: codec.INCMP, S1: "_", S2: "*"}}
		} else {
			n.Code = []codec.Ins{{Op: codec.LOAD, S1: sy.name, N: sy.size}, {Op: codec.MOUT, S1: "lback", S2: "0"}, {Op: codec.HALT}, {Op: codec.INCMP, S1: "_", S2: "*"}}
		}
	}
	return n
}

// Alphabet returns the inputs worth sending to this application: all its selectors plus junk.
func (a *App) Alphabet() []string {
	set := map[string]bool{}
	for _, n := range a.Nodes {
		for _, ins := range n.Code {
			if ins.Op == codec.INCMP && ins.S2 != "*" {
				set[ins.S2] = true
			}
		}
	}
	l := make([]string, 0, len(set))
	for s := range set {
		l = append(l, s)
	}
	sort.Strings(l)
	return l
}

// Junk inputs: accepted by the engine's input check but matching no selector (or empty).
var Junk = []string{"", "zz", "5x", "+1", "0 ", "7"}

// History draws an input history.
func (a *App) History(r *vk.RNG, n int) []string {
	al := a.Alphabet()
	h := make([]string, 0, n)
	h = append(h, "") // first request: initial empty input
	for len(h) < n {
		switch {
		case len(al) == 0 || r.Chance(1, 7):
			h = append(h, vk.Pick(r, Junk))
		case r.Chance(1, 9):
			// a near miss of a real selector: accepted by the engine, equal to no selector
			s := vk.Pick(r, al)
			h = append(h, vk.Pick(r, []string{s + " ", s + "\t", s + "\r", s + "x", s + s, "0" + s, strings.ToUpper(s) + "", s + ".", s + "*", "+" + s}))
		default:
			h = append(h, vk.Pick(r, al))
		}
	}
	return h
}
