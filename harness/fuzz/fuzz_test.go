package fuzz

import (
	"io"
	"log"
	"testing"

	"verif/harness/checks"
	"verif/harness/codec"
	"verif/harness/vk"
)

// FuzzC15 is the coverage-guided leg of C15: any byte string, same oracle as the enumerating monitor.
func FuzzC15(f *testing.F) {
	log.SetOutput(io.Discard)
	r := vk.NewRNG(15)
	for i := 0; i < 40; i++ {
		prog := checks.GenSmallProgramForFuzz(r)
		b := codec.EncodeAll(prog)
		f.Add(b)
		if len(b) > 3 {
			f.Add(b[:len(b)-1])
			f.Add(b[:len(b)/2])
		}
	}
	f.Add([]byte{0, 3, 1, 'a', 5, 0})
	f.Add([]byte{0, 6, 0xff, 'a'})
	f.Fuzz(func(t *testing.T, x []byte) {
		if len(x) > 4096 {
			return
		}
		for _, s := range checks.C15Oracle(x) {
			t.Fatalf("C15VIOLATION %s", s)
		}
	})
}
