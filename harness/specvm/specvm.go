// Package specvm is the executable reference model of one go-vise session, written from
// doc/texinfo (instructions, navigation, cache, signals, exceptions, render) and the property
// statements. It is fed the same application, configuration and inputs as the real engine and
// predicts what a request must show at the API boundary. Where documentation and properties are
// silent it answers don't-care and the monitors skip the comparison.
package specvm

import (
	"fmt"
	"regexp"
	"strings"

	iso "github.com/barbashov/iso639-3"

	"verif/harness/app"
	"verif/harness/codec"
)

const (
	fREADIN    = 0
	fINMATCH   = 1
	fWAIT      = 2
	fLOADFAIL  = 3
	fDIRTY     = 4
	fTERMINATE = 6
	fLANG      = 7
)

const MaxLevel = 128

type entry struct {
	Val   string
	Limit uint32
}

type Model struct {
	A   *app.App
	Cfg app.Config

	Stack   []string
	Idx     int
	Flags   map[uint32]bool
	Scopes  []map[string]entry
	Pending []codec.Ins
	Lang    string
	// LangUnknown: the language was "reset" with an empty code (documented don't-care)
	LangUnknown bool
	LastValue   string
	Calls       map[string]int
	evLang      string // language carried by the context of the running request
	// FreshEngine: every request is served by a newly created engine (persisted operation)
	FreshEngine bool
	firstDone   bool // the pre-VM function of this engine has run (it runs once per engine)

	// render state of the current segment
	mapped    []string
	mapVal    map[string]string
	menu      [][2]string
	errPrefix string
	errKnown  bool
	catching  bool
}

func New(a *app.App, cfg app.Config) *Model {
	m := &Model{A: a, Cfg: cfg, Flags: map[uint32]bool{}, Scopes: []map[string]entry{{}}, Calls: map[string]int{}, mapVal: map[string]string{}, errKnown: true}
	if cfg.Language != "" {
		if c, ok := langCode(cfg.Language); ok {
			m.Lang = c
			m.Flags[fLANG] = true
		}
	}
	return m
}

func langCode(s string) (string, bool) {
	if s == "" {
		return "", false
	}
	r := iso.FromAnyCode(s)
	if r == nil {
		return "", false
	}
	return r.Part3, true
}

// Ev is a predicted callback.
type Ev struct {
	Kind, Sym, Lang, Input string
	LangUnknown            bool
}

// Pred is the prediction for one request.
type Pred struct {
	Refused bool
	ExecErr bool
	// ExecErrWhy explains a predicted failure (for reports)
	ExecErrWhy string
	Cont       bool
	Events     []Ev // exec-phase callbacks: code, funcfor, call (in order)
	// Flush
	FlushDontCare     bool
	FlushErr          bool
	NoOutput          bool // nothing is due: Flush writes nothing and reports no error
	PageKnown         bool
	PageText          string // exact text of the page (without exit value)
	Graceful          bool   // final output: page text followed by the exit value
	ExitValue         string
	RenderLang        string // language the Flush lookups must carry
	RenderLangUnknown bool
	// after the request
	Moved bool
	// PostStateUnknown: the session state after this request is not determined by the model
	PostStateUnknown bool
	valueUnknown     bool
}

var reInput = regexp.MustCompile(`^\+?[a-zA-Z0-9].*$`)

func Refuses(in string) bool {
	if len(in) == 0 {
		return false
	}
	if len(in) > 255 {
		return true
	}
	return !reInput.MatchString(in)
}

func (m *Model) flag(i uint32) bool { return m.Flags[i] }

// ClientFlags lists the client flags (>= 8) that are set.
func (m *Model) ClientFlags() []uint32 {
	var l []uint32
	for i := uint32(8); i < 8+m.Cfg.FlagCount; i++ {
		if m.Flags[i] {
			l = append(l, i)
		}
	}
	return l
}

func (m *Model) Terminated() bool { return m.Flags[fTERMINATE] }

// ClearTerminate models client code clearing the flag in the stored state.
func (m *Model) ClearTerminate() { m.Flags[fTERMINATE] = false }

func (m *Model) top() string {
	if len(m.Stack) == 0 {
		return ""
	}
	return m.Stack[len(m.Stack)-1]
}

func (m *Model) visible(sym string) (int, bool) {
	for i, s := range m.Scopes {
		if _, ok := s[sym]; ok {
			return i, true
		}
	}
	return -1, false
}

func (m *Model) use() int {
	n := 0
	for _, s := range m.Scopes {
		for _, e := range s {
			n += len(e.Val)
		}
	}
	return n
}

func (m *Model) resetRender() {
	m.mapped = nil
	m.mapVal = map[string]string{}
	m.menu = nil
}

type stepErr struct {
	msg   string
	known bool // msg is the exact text the library puts in front of the catch page
	index bool // the "already at first index" condition
}

var validSym = regexp.MustCompile(`^[a-zA-Z0-9][a-zA-Z0-9_]+$`)

// move applies a navigation target. Returns the node whose code must be fetched.
func (m *Model) move(t string) (string, *stepErr) {
	switch t {
	case "_":
		if len(m.Stack) == 0 {
			return "", &stepErr{msg: "exit called beyond top frame"}
		}
		m.Stack = m.Stack[:len(m.Stack)-1]
		m.Idx = 0
		m.popScope()
		return m.top(), nil
	case ">":
		if len(m.Stack) == 0 {
			return "", &stepErr{msg: "no root"}
		}
		m.Idx++
		return m.top(), nil
	case "<":
		if len(m.Stack) == 0 {
			return "", &stepErr{msg: "no root"}
		}
		if m.Idx == 0 {
			return "", &stepErr{msg: "already at first index", known: true, index: true}
		}
		m.Idx--
		return m.top(), nil
	case "^":
		if len(m.Stack) == 0 {
			return "", &stepErr{msg: "no root"}
		}
		for len(m.Stack) > 1 {
			m.Stack = m.Stack[:len(m.Stack)-1]
			m.Idx = 0
			m.popScope()
		}
		return m.top(), nil
	case ".":
		return m.top(), nil
	}
	if t != "_catch" && !validSym.MatchString(t) {
		return "", &stepErr{msg: "invalid target"}
	}
	if m.top() == t {
		return "", &stepErr{msg: fmt.Sprintf("already at node '%s'", t), known: true}
	}
	if len(m.Stack)-1 >= MaxLevel {
		return "", &stepErr{msg: fmt.Sprintf("max levels exceeded (%d)", MaxLevel), known: true}
	}
	m.Stack = append(m.Stack, t)
	m.Idx = 0
	m.Scopes = append(m.Scopes, map[string]entry{})
	return t, nil
}

func (m *Model) popScope() {
	if len(m.Scopes) > 1 {
		m.Scopes = m.Scopes[:len(m.Scopes)-1]
	} else {
		m.Scopes = []map[string]entry{{}}
	}
}

// fetch appends the GetCode event and returns the node's code.
func (m *Model) fetch(p *Pred, node string) ([]codec.Ins, *stepErr) {
	p.Events = append(p.Events, Ev{Kind: "code", Sym: node, Lang: m.evLang, LangUnknown: m.LangUnknown})
	n, ok := m.A.Nodes[node]
	if !ok {
		return nil, &stepErr{msg: fmt.Sprintf("no code for node %q", node), known: true}
	}
	return append([]codec.Ins{}, n.Code...), nil
}

// refresh runs an external function.
func (m *Model) refresh(p *Pred, sym, input string) (string, *stepErr) {
	p.Events = append(p.Events, Ev{Kind: "funcfor", Sym: sym, Lang: m.evLang, LangUnknown: m.LangUnknown})
	f, ok := m.A.Funcs[sym]
	if !ok {
		return "", &stepErr{msg: fmt.Sprintf("no function for symbol %q", sym), known: true}
	}
	m.Calls[sym]++
	p.Events = append(p.Events, Ev{Kind: "call", Sym: sym, Lang: m.evLang, Input: input, LangUnknown: m.LangUnknown})
	r := f.Result(m.Calls[sym], []byte(input), m.evLang)
	if m.LangUnknown && (f.Kind == "idlang" || f.Kind == "static" && len(f.Trans) > 0) {
		// the language was "reset" with an empty code: what a language-dependent function is called with is
		// don't-care, and so is everything that depends on its result
		p.valueUnknown = true
	}
	if r.Err {
		m.Flags[fLOADFAIL] = true
		return "", &stepErr{msg: fmt.Sprintf("error %s:%d", sym, r.Status), known: true}
	}
	writeable := func(fl uint32) bool { return fl > 5 }
	for _, fl := range r.FlagReset {
		if writeable(fl) {
			m.Flags[fl] = false
		}
	}
	for _, fl := range r.FlagSet {
		if writeable(fl) {
			m.Flags[fl] = true
		}
	}
	if m.Flags[fLANG] {
		if r.Content == "" {
			m.Lang = ""
			m.LangUnknown = true // documented as "reset": what lookups carry afterwards is don't-care
		} else if c, ok := langCode(r.Content); ok {
			m.Lang = c
			m.LangUnknown = false
		}
	}
	return r.Content, nil
}

// first models Engine.WithFirst for a side-effect free "_first" function (no flags, no errors; the only kind the
// model-based checks install): it is called once per engine, before the session's code, with the request's input
// and the language of the session as it was saved; its value goes nowhere. The pre-VM run consumes LANG and ends
// in a HALT.
func (m *Model) first(p *Pred, input string) {
	f := m.A.Funcs["_first"]
	if !m.Cfg.First || f == nil || (m.firstDone && !m.FreshEngine) {
		return
	}
	m.firstDone = true
	if m.Flags[fTERMINATE] {
		return // not modelled: the checks that install a first function do not terminate sessions
	}
	m.Calls["_first"]++
	p.Events = append(p.Events, Ev{Kind: "call", Sym: "_first", Lang: m.Lang, Input: input, LangUnknown: m.LangUnknown})
	m.Flags[fLANG] = false
	m.Flags[fLOADFAIL] = false
	m.Flags[fINMATCH] = false
	m.Flags[fWAIT] = true
	m.Flags[fDIRTY] = false
}

// Request predicts one request (persisted-engine semantics).
func (m *Model) Request(input string) *Pred {
	p := m.request(input)
	if p.valueUnknown {
		p.FlushDontCare, p.PageKnown, p.PostStateUnknown = true, false, true
	}
	return p
}

func (m *Model) request(input string) *Pred {
	p := &Pred{}
	// an engine that still has to run its pre-VM function stops right there when the session is terminated
	// (before it looks at ResetOnEmptyInput)
	stoppedByFirst := m.Cfg.First && m.A.Funcs["_first"] != nil && (m.FreshEngine || !m.firstDone) && m.Flags[fTERMINATE]
	if len(input) <= 255 {
		m.first(p, input)
	}
	if Refuses(input) {
		p.Refused = true
		p.ExecErr = true
		// engine.init runs before validation: a session without pending code gets its entry move injected
		if len(input) <= 255 && len(m.Pending) == 0 {
			m.Pending = []codec.Ins{{Op: codec.MOVE, S1: m.Cfg.Root}}
		}
		return p
	}
	if m.Cfg.ResetOnEmptyInput && input == "" && len(m.Stack) > 0 && !stoppedByFirst {
		// engine.Config.ResetOnEmptyInput: an empty input (a new dial-in) unwinds the session to nothing and enters
		// the entry node again; flags set by the client stay, TERMINATE does not
		m.Pending = []codec.Ins{{Op: codec.MOVE, S1: m.Cfg.Root}}
		m.Stack = nil
		m.Idx = 0
		m.Scopes = []map[string]entry{{}}
		m.Flags[fTERMINATE] = false
		m.Flags[fDIRTY] = false
	}
	if len(m.Pending) == 0 {
		m.Pending = []codec.Ins{{Op: codec.MOVE, S1: m.Cfg.Root}}
	}
	m.evLang = m.Lang
	m.catching = false
	if m.FreshEngine {
		// an engine created for this request has a new renderer: nothing mapped, no menu, no error prefix
		m.resetRender()
		m.errPrefix, m.errKnown = "", true
	}
	m.Flags[fINMATCH] = false
	halted := false
	var failed *stepErr
	for {
		if m.Flags[fTERMINATE] {
			m.Pending = nil
			break
		}
		m.Flags[fLOADFAIL] = false // documented lifetime: until the next instruction
		if m.Flags[fLANG] {
			m.Flags[fLANG] = false
			if m.Lang != "" {
				m.evLang = m.Lang
			}
		}
		if m.Flags[fWAIT] {
			m.Flags[fWAIT] = false
			m.Flags[fINMATCH] = false
			m.resetRender()
			m.errPrefix, m.errKnown = "", true
		}
		m.Flags[fDIRTY] = true
		ins := m.Pending[0]
		m.Pending = m.Pending[1:]
		var serr *stepErr
		switch ins.Op {
		case codec.CATCH:
			if m.Flags[ins.N] == ins.Mode {
				node, e := m.move(ins.S1)
				if e != nil {
					serr = e
					break
				}
				p.Moved = true
				code, e := m.fetch(p, node)
				if e != nil {
					serr = e
					break
				}
				m.Pending = code
				m.resetRender()
			}
		case codec.CROAK:
			if m.Flags[ins.N] == ins.Mode {
				m.resetRender()
				for i := 1; i < len(m.Scopes); i++ {
					m.Scopes[i] = map[string]entry{}
				}
				m.Pending = nil
			}
		case codec.LOAD:
			if _, ok := m.visible(ins.S1); ok {
				break
			}
			val, e := m.refresh(p, ins.S1, input)
			if e != nil {
				serr = e
				break
			}
			lim := ins.N & 0xffff
			if lim > 0 && uint32(len(val)) > lim {
				serr = &stepErr{msg: fmt.Sprintf("value length %v exceeds value size limit %v", len(val), lim), known: true}
				break
			}
			if len(val) > 0 && m.Cfg.CacheSize > 0 && uint32(m.use()+len(val)) > m.Cfg.CacheSize {
				serr = &stepErr{msg: "Cache capacity exceeded"}
				break
			}
			m.Scopes[len(m.Scopes)-1][ins.S1] = entry{Val: val, Limit: lim}
			m.LastValue = val
		case codec.RELOAD:
			val, e := m.refresh(p, ins.S1, input)
			if e != nil {
				serr = e
				break
			}
			if si, ok := m.visible(ins.S1); ok {
				en := m.Scopes[si][ins.S1]
				fits := !(en.Limit > 0 && uint32(len(val)) > en.Limit)
				if fits && m.Cfg.CacheSize > 0 && uint32(m.use()-len(en.Val)+len(val)) > m.Cfg.CacheSize {
					fits = false
				}
				if fits {
					en.Val = val
					m.Scopes[si][ins.S1] = en
				}
			}
			if e := m.doMap(ins.S1); e != nil {
				serr = e
			}
		case codec.MAP:
			if e := m.doMap(ins.S1); e != nil {
				serr = e
			}
		case codec.MOVE:
			node, e := m.move(ins.S1)
			if e != nil {
				serr = e
				break
			}
			p.Moved = true
			code, e := m.fetch(p, node)
			if e != nil {
				serr = e
				break
			}
			m.Pending = append(m.Pending, code...)
			m.resetRender()
		case codec.INCMP:
			if m.Flags[fINMATCH] {
				break
			}
			m.Flags[fREADIN] = true
			if ins.S2 != "*" && ins.S2 != input {
				break
			}
			m.Flags[fINMATCH] = true
			m.Flags[fREADIN] = false
			node, e := m.move(ins.S1)
			if e != nil {
				if e.index {
					m.Flags[fREADIN] = true
					break
				}
				serr = e
				break
			}
			p.Moved = true
			m.resetRender()
			code, e := m.fetch(p, node)
			if e != nil {
				serr = e
				break
			}
			m.Pending = append(m.Pending, code...)
		case codec.HALT:
			m.Flags[fWAIT] = true
			halted = true
		case codec.MSINK:
			// not generated for model-based checks
		case codec.MOUT:
			m.menu = append(m.menu, [2]string{ins.S2, ins.S1})
		case codec.MNEXT, codec.MPREV:
			// browse entries only appear on paged nodes
		}
		if halted {
			break
		}
		if serr != nil {
			m.errPrefix, m.errKnown = serr.msg, serr.known
			if !m.Flags[fLOADFAIL] || m.catching {
				failed = serr
				break
			}
			m.catching = true
			m.Pending = []codec.Ins{{Op: codec.MOVE, S1: "_catch"}}
		} else {
			m.catching = false
		}
		if len(m.Pending) == 0 {
			if !m.Flags[fREADIN] {
				m.Flags[fTERMINATE] = true
			} else if !m.Flags[fTERMINATE] {
				loc := m.top()
				if loc == "" {
					failed = &stepErr{msg: "dead runner with no current location"}
					break
				}
				if loc == "_catch" {
					failed = &stepErr{msg: "unexpected catch endless loop"}
					break
				}
				m.errPrefix, m.errKnown = fmt.Sprintf("invalid input: '%s'", input), true
				m.Pending = []codec.Ins{{Op: codec.MOVE, S1: "_catch"}}
			}
		}
		if len(m.Pending) == 0 {
			break
		}
	}
	if failed != nil {
		p.ExecErr = true
		p.ExecErrWhy = failed.msg
		m.Pending = nil
		return p
	}
	// engine after the run
	if m.Flags[fTERMINATE] {
		p.Cont = false
		p.RenderLang, p.RenderLangUnknown = m.Lang, m.LangUnknown
		m.Pending = nil
		// what the terminating request itself shows is unspecified; a blocked request shows nothing
		if m.Flags[fDIRTY] {
			p.FlushDontCare = true
			m.Flags[fDIRTY] = false
		} else {
			p.NoOutput = true
		}
		return p
	}
	p.Cont = len(m.Pending) > 0
	exiting := false
	if !p.Cont && m.Flags[fDIRTY] {
		exiting = true
		p.ExitValue = m.LastValue
		m.LastValue = ""
	}
	// Flush
	m.flush(p)
	if exiting && p.ExitValue == "" && (p.FlushErr || p.FlushDontCare) {
		// the final page cannot be rendered and there is no exit value: Flush returns the error and the
		// engine does not unwind the session. If it is unknown whether the render fails, the state is unknown.
		p.Graceful = true
		p.PostStateUnknown = p.FlushDontCare
		return p
	}
	if exiting {
		p.Graceful = true
		if p.FlushErr && p.ExitValue != "" {
			p.FlushErr, p.FlushDontCare = false, true // the engine shows the exit value alone (recorded C01 finding)
		}
		m.Stack = nil
		m.Idx = 0
		m.Scopes = []map[string]entry{{}}
		m.Flags[fTERMINATE] = false
		m.Flags[fDIRTY] = false
	}
	return p
}

func (m *Model) doMap(sym string) *stepErr {
	si, ok := m.visible(sym)
	if !ok {
		return &stepErr{msg: fmt.Sprintf("key '%s' not found in any frame", sym), known: true}
	}
	if m.Scopes[si][sym].Limit == 0 {
		for _, o := range m.mapped {
			if oi, ok := m.visible(o); ok && o != sym && m.Scopes[oi][o].Limit == 0 {
				return &stepErr{msg: fmt.Sprintf("sink already set to symbol '%v'", o), known: true}
			}
		}
	}
	if _, dup := m.mapVal[sym]; !dup {
		m.mapped = append(m.mapped, sym)
	}
	m.mapVal[sym] = m.Scopes[si][sym].Val
	return nil
}

var rePlaceholder = regexp.MustCompile(`\{\{\.([a-zA-Z0-9_]+)\}\}`)

func (m *Model) flush(p *Pred) {
	p.RenderLang, p.RenderLangUnknown = m.Lang, m.LangUnknown
	if !m.Flags[fDIRTY] {
		p.NoOutput = true
		return
	}
	m.Flags[fDIRTY] = false
	node := m.top()
	if node == "" {
		p.NoOutput = true
		return
	}
	tpl, ok := m.A.TemplateFor(node, m.Lang)
	if !ok {
		p.FlushErr = true
		return
	}
	if m.LangUnknown {
		p.FlushDontCare = true
		return
	}
	if m.Idx > 0 {
		p.FlushErr = true // no paged content in model-based applications: an index > 0 cannot be rendered
		return
	}
	// a mapped symbol with limit 0 would be paginated: outside the model
	for _, s := range m.mapped {
		if si, ok := m.visible(s); ok && m.Scopes[si][s].Limit == 0 && m.Cfg.OutputSize > 0 {
			p.FlushDontCare = true
			return
		}
	}
	missing := false
	body := rePlaceholder.ReplaceAllStringFunc(tpl, func(ph string) string {
		k := rePlaceholder.FindStringSubmatch(ph)[1]
		v, ok := m.mapVal[k]
		if !ok {
			missing = true
		}
		return v
	})
	if missing {
		p.FlushErr = true
		return
	}
	if m.errPrefix != "" {
		if !m.errKnown {
			p.FlushDontCare = true
			return
		}
		if tpl == "" {
			body = m.errPrefix
		} else {
			body = m.errPrefix + "\n" + body
		}
	}
	sep := m.Cfg.MenuSeparator
	if sep == "" {
		sep = ":"
	}
	var lines []string
	for _, e := range m.menu {
		lines = append(lines, e[0]+sep+m.A.LabelFor(e[1], m.Lang))
	}
	page := body
	if len(lines) > 0 {
		page += "\n" + strings.Join(lines, "\n")
	}
	if m.Cfg.OutputSize > 0 && uint32(len(page)) > m.Cfg.OutputSize {
		p.FlushErr = true
		return
	}
	p.PageKnown = true
	p.PageText = page
}
