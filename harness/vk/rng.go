// Package vk is the kernel shared by all checks: PRNG, worker processes,
// journalling, known-findings, evidence and replay files.
package vk

import (
	"hash/fnv"
)

// RNG is a splitmix64 generator. All case lists are a pure function of
// (VERIF_SEED, case key); no wall clock enters any decision.
type RNG struct{ s uint64 }

func NewRNG(seed uint64) *RNG { return &RNG{s: seed} }

// CaseRNG derives the generator of one case from the run seed and the case key.
func CaseRNG(seed uint64, key string) *RNG {
	h := fnv.New64a()
	h.Write([]byte(key))
	return &RNG{s: seed*0x9E3779B97F4A7C15 ^ h.Sum64()}
}

func (r *RNG) U64() uint64 {
	r.s += 0x9E3779B97F4A7C15
	z := r.s
	z = (z ^ (z >> 30)) * 0xBF58476D1CE4E5B9
	z = (z ^ (z >> 27)) * 0x94D049BB133111EB
	return z ^ (z >> 31)
}

func (r *RNG) U32() uint32 { return uint32(r.U64() >> 32) }

// Intn returns a value in [0,n). n<=0 returns 0.
func (r *RNG) Intn(n int) int {
	if n <= 0 {
		return 0
	}
	return int(r.U64() % uint64(n))
}

// Range returns a value in [lo,hi].
func (r *RNG) Range(lo, hi int) int {
	if hi <= lo {
		return lo
	}
	return lo + r.Intn(hi-lo+1)
}

func (r *RNG) Bool() bool { return r.U64()&1 == 1 }

// Chance is true with probability num/den.
func (r *RNG) Chance(num, den int) bool { return r.Intn(den) < num }

func (r *RNG) Fork() *RNG { return &RNG{s: r.U64()} }

func Pick[T any](r *RNG, xs []T) T { return xs[r.Intn(len(xs))] }

func Shuffle[T any](r *RNG, xs []T) {
	for i := len(xs) - 1; i > 0; i-- {
		j := r.Intn(i + 1)
		xs[i], xs[j] = xs[j], xs[i]
	}
}

// Hash64 hashes a list of strings into a case signature.
func Hash64(parts ...string) uint64 {
	h := fnv.New64a()
	for _, p := range parts {
		h.Write([]byte(p))
		h.Write([]byte{0xff})
	}
	return h.Sum64()
}

func HashBytes(b []byte) uint64 {
	h := fnv.New64a()
	h.Write(b)
	return h.Sum64()
}
