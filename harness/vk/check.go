package vk

import (
	"bufio"
	"bytes"
	"encoding/json"
	"fmt"
	"os"
	"os/exec"
	"path/filepath"
	"runtime"
	"runtime/debug"
	"sort"
	"strconv"
	"strings"
	"sync"
	"syscall"
	"time"
)

// Check describes one property check.
type Check struct {
	ID          string
	Level       string // evidence "level"
	Rule        string // how cases are generated and what makes one distinct/non-trivial
	Assumptions []string
	// MinEvaluations: a run that evaluated fewer cases is inconclusive.
	MinEvaluations int64
	// Shards returns the number of worker processes for a tier.
	Shards func(tier string) int
	// Run executes the shard's cases in a worker process.
	Run func(c *Ctx)
	// Serial, if set, runs once in the parent after the workers (e.g. steps that
	// need the merged result). Optional.
	Serial func(c *Ctx)
	// WatchdogQuick / WatchdogThorough: generous wall-clock limits per worker; firing = inconclusive.
	WatchdogQuick, WatchdogThorough time.Duration
	// NoAddressLimit disables RLIMIT_AS for workers (race detector builds).
	NoAddressLimit bool
	// Env returns extra environment for a worker (tmp is the run's scratch directory).
	Env func(tmp string, shard int) []string
	// WorkerProcs overrides GOMAXPROCS of the workers (0: 2 when several shards run).
	WorkerProcs int
}

// Violation is one observed refutation.
type Violation struct {
	Sig    string      `json:"sig"`
	Msg    string      `json:"msg"`
	Key    string      `json:"key"`  // case key; replay re-runs exactly this case
	Case   interface{} `json:"case"` // human-readable description of the failing case
	Shard  int         `json:"shard"`
	Fatal  bool        `json:"fatal,omitempty"`
	Stderr string      `json:"stderr,omitempty"`
}

// Result is what one worker reports.
type Result struct {
	Evaluations   int64               `json:"evaluations"`
	Hashes        []uint64            `json:"hashes"`
	ExactDistinct int64               `json:"exact_distinct"`
	Counters      map[string]int64    `json:"counters"`
	Sets          map[string][]string `json:"sets"`
	Samples       []interface{}       `json:"samples"`
	Violations    []Violation         `json:"violations"`
	Inconclusive  []string            `json:"inconclusive"`
	Exhaustive    bool                `json:"exhaustive"`
	Done          bool                `json:"done"`
}

// Ctx is handed to Check.Run in a worker.
type Ctx struct {
	ID      string
	Tier    string
	Seed    uint64
	Shard   int
	NShards int
	Only    string // replay: only the case with this key
	Verbose bool

	mu         sync.Mutex
	res        Result
	hashes     map[uint64]struct{}
	sets       map[string]map[string]struct{}
	journal    *os.File
	maxSamples int
	sigCount   map[string]int
}

func (c *Ctx) Quick() bool { return c.Tier != "thorough" }

// N picks a case count by tier.
func (c *Ctx) N(quick, thorough int) int {
	if c.Quick() {
		return quick
	}
	return thorough
}

// Mine reports whether case index i belongs to this shard.
func (c *Ctx) Mine(i int) bool { return c.NShards <= 1 || i%c.NShards == c.Shard }

// Want reports whether the case with this key must run (replay filter + journal).
func (c *Ctx) Want(key string) bool {
	if c.Only == "" || c.Only == key {
		return true
	}
	// "prefix/*" selects a family of cases (diagnostic use)
	if strings.HasSuffix(c.Only, "*") && strings.HasPrefix(key, strings.TrimSuffix(c.Only, "*")) {
		return true
	}
	return false
}

// Begin journals the case key before it executes so that a dead worker can be attributed.
func (c *Ctx) Begin(key string) {
	if c.journal != nil {
		c.journal.WriteString(key + "\n")
	}
}

// Note appends a free-form line to the journal (the last input before a call, etc.).
func (c *Ctx) Note(s string) {
	if c.journal != nil {
		c.journal.WriteString("  # " + s + "\n")
	}
}

func (c *Ctx) RNG(key string) *RNG { return CaseRNG(c.Seed, key) }

// Eval records one evaluated case; hash identifies the distinct case signature.
func (c *Ctx) Eval(hash uint64, nontrivial bool) {
	c.mu.Lock()
	c.res.Evaluations++
	if nontrivial {
		c.hashes[hash] = struct{}{}
	}
	c.mu.Unlock()
}

// EvalN records n evaluations of an enumerated space whose members are distinct by construction.
func (c *Ctx) EvalN(n int64, distinctNontrivial int64) {
	c.mu.Lock()
	c.res.Evaluations += n
	c.res.ExactDistinct += distinctNontrivial
	c.mu.Unlock()
}

func (c *Ctx) Count(name string, n int64) {
	c.mu.Lock()
	c.res.Counters[name] += n
	c.mu.Unlock()
}

// Max keeps the maximum seen for a counter.
func (c *Ctx) Max(name string, n int64) {
	c.mu.Lock()
	if n > c.res.Counters[name] {
		c.res.Counters[name] = n
	}
	c.mu.Unlock()
}

// SetAdd adds a member to a named set; the evidence reports the set's size ("distinct X seen").
func (c *Ctx) SetAdd(name, member string) {
	c.mu.Lock()
	m := c.sets[name]
	if m == nil {
		m = map[string]struct{}{}
		c.sets[name] = m
	}
	if len(m) < 200000 {
		m[member] = struct{}{}
	}
	c.mu.Unlock()
}

func (c *Ctx) Sample(v interface{}) {
	c.mu.Lock()
	if len(c.res.Samples) < c.maxSamples {
		c.res.Samples = append(c.res.Samples, v)
	}
	c.mu.Unlock()
}

func (c *Ctx) SetExhaustive(b bool) { c.mu.Lock(); c.res.Exhaustive = b; c.mu.Unlock() }

// Violate records a violation. At most a few witnesses per signature are kept.
func (c *Ctx) Violate(sig, msg, key string, cs interface{}) {
	c.mu.Lock()
	defer c.mu.Unlock()
	c.res.Counters["violations_observed"]++
	c.sigCount[sig]++
	if c.sigCount[sig] > 3 {
		return
	}
	c.res.Violations = append(c.res.Violations, Violation{Sig: sig, Msg: msg, Key: key, Case: cs, Shard: c.Shard})
}

func (c *Ctx) Inconclusive(reason string) {
	c.mu.Lock()
	c.res.Inconclusive = append(c.res.Inconclusive, reason)
	c.mu.Unlock()
}

// Guard runs f and converts a panic into a (value, stack) pair.
func Guard(f func()) (pv interface{}, stack string) {
	defer func() {
		if r := recover(); r != nil {
			pv = r
			stack = string(debug.Stack())
		}
	}()
	f()
	return nil, ""
}

// PanicSig builds a signature from a recovered panic: kind + top library frame (function name, no line).
func PanicSig(pv interface{}, stack string) string {
	kind := fmt.Sprintf("%v", pv)
	if e, ok := pv.(runtime.Error); ok {
		kind = e.Error()
	}
	kind = normPanic(kind)
	return "panic:" + kind + "@" + TopLibFrame(stack)
}

func normPanic(s string) string {
	// strip run-specific numbers: "index out of range [5] with length 3" -> "index out of range"
	for _, p := range []string{"index out of range", "slice bounds out of range", "nil pointer dereference", "nil map", "maxlevel", "down into same node", "bit index", "persister has been invalidated", "duplicate sink", "concurrent map"} {
		if strings.Contains(s, p) {
			return strings.ReplaceAll(p, " ", "_")
		}
	}
	if len(s) > 60 {
		s = s[:60]
	}
	return strings.ReplaceAll(s, " ", "_")
}

// TopLibFrame returns the first frame of the stack that lies in the library under test.
func TopLibFrame(stack string) string {
	for _, ln := range strings.Split(stack, "\n") {
		ln = strings.TrimSpace(ln)
		if strings.HasPrefix(ln, "git.defalsify.org/vise.git/") {
			f := strings.TrimPrefix(ln, "git.defalsify.org/vise.git/")
			if i := strings.LastIndex(f, "("); i > 0 {
				f = f[:i]
			}
			return f
		}
	}
	return "?"
}

// ---------------------------------------------------------------------------------------------
// parent side

var VerifDir = func() string {
	if d := os.Getenv("VERIF_DIR"); d != "" {
		return d
	}
	return "/verif"
}()

// OutDir is where evidence/ and replays/ are written (default: VerifDir). Mutation experiments redirect it.
var OutDir = func() string {
	if d := os.Getenv("VERIF_OUT"); d != "" {
		return d
	}
	return VerifDir
}()

func envSeed() uint64 {
	s := os.Getenv("VERIF_SEED")
	if s == "" {
		return 1
	}
	v, err := strconv.ParseUint(s, 10, 64)
	if err != nil {
		v2, err2 := strconv.ParseInt(s, 10, 64)
		if err2 != nil {
			return 1
		}
		return uint64(v2)
	}
	return v
}

// Main dispatches "vcheck <ID> [--tier t] [--replay path] | --worker ...".
func Main(checks []*Check) {
	if len(os.Args) < 2 {
		fmt.Fprintln(os.Stderr, "usage: vcheck <ID> [--tier quick|thorough] [--replay file]")
		os.Exit(3)
	}
	id := os.Args[1]
	var ck *Check
	for _, c := range checks {
		if c.ID == id {
			ck = c
		}
	}
	if ck == nil {
		fmt.Fprintf(os.Stderr, "unknown check %s\n", id)
		os.Exit(3)
	}
	tier := os.Getenv("VERIF_TIER")
	if tier == "" {
		tier = "quick"
	}
	var worker = -1
	var nshards = 1
	var out, journal, replay, only string
	seed := envSeed()
	args := os.Args[2:]
	for i := 0; i < len(args); i++ {
		next := func() string {
			i++
			if i < len(args) {
				return args[i]
			}
			return ""
		}
		switch args[i] {
		case "--tier":
			tier = next()
		case "--worker":
			worker, _ = strconv.Atoi(next())
		case "--nshards":
			nshards, _ = strconv.Atoi(next())
		case "--out":
			out = next()
		case "--journal":
			journal = next()
		case "--seed":
			seed, _ = strconv.ParseUint(next(), 10, 64)
		case "--replay":
			replay = next()
		case "--only":
			only = next()
		case "quick", "thorough":
			tier = args[i]
		}
	}
	if tier != "thorough" {
		tier = "quick"
	}
	if worker >= 0 {
		runWorker(ck, tier, seed, worker, nshards, out, journal, only)
		return
	}
	if replay != "" {
		os.Exit(runReplay(ck, replay))
	}
	os.Exit(runParent(ck, tier, seed, only))
}

func newCtx(ck *Check, tier string, seed uint64, shard, nshards int) *Ctx {
	c := &Ctx{ID: ck.ID, Tier: tier, Seed: seed, Shard: shard, NShards: nshards,
		hashes: map[uint64]struct{}{}, sets: map[string]map[string]struct{}{}, maxSamples: 3, sigCount: map[string]int{}}
	c.res.Counters = map[string]int64{}
	return c
}

func (c *Ctx) finish() *Result {
	c.mu.Lock()
	defer c.mu.Unlock()
	c.res.Hashes = c.res.Hashes[:0]
	for h := range c.hashes {
		c.res.Hashes = append(c.res.Hashes, h)
	}
	c.res.Sets = map[string][]string{}
	for k, m := range c.sets {
		l := make([]string, 0, len(m))
		for s := range m {
			l = append(l, s)
		}
		sort.Strings(l)
		c.res.Sets[k] = l
	}
	c.res.Done = true
	return &c.res
}

func runWorker(ck *Check, tier string, seed uint64, shard, nshards int, out, journal, only string) {
	if !ck.NoAddressLimit {
		lim := uint64(12) << 30
		syscall.Setrlimit(syscall.RLIMIT_AS, &syscall.Rlimit{Cur: lim, Max: lim})
	}
	c := newCtx(ck, tier, seed, shard, nshards)
	c.Only = only
	if journal != "" {
		f, err := os.Create(journal)
		if err == nil {
			c.journal = f
		}
	}
	ck.Run(c)
	r := c.finish()
	b, _ := json.Marshal(r)
	if err := os.WriteFile(out, b, 0644); err != nil {
		fmt.Fprintln(os.Stderr, "worker: cannot write result:", err)
		os.Exit(4)
	}
}

type known struct {
	prop, sig, desc string
}

func loadKnown() ([]known, error) {
	f, err := os.Open(filepath.Join(VerifDir, "KNOWN_FINDINGS.txt"))
	if err != nil {
		if os.IsNotExist(err) {
			return nil, nil
		}
		return nil, err
	}
	defer f.Close()
	var ks []known
	sc := bufio.NewScanner(f)
	sc.Buffer(make([]byte, 1<<20), 1<<20)
	for sc.Scan() {
		ln := strings.TrimSpace(sc.Text())
		if !strings.HasPrefix(ln, "known:") {
			continue // "fixed:" lines and comments suppress nothing
		}
		rest := strings.TrimSpace(strings.TrimPrefix(ln, "known:"))
		desc := ""
		if i := strings.Index(rest, " :: "); i >= 0 {
			desc = rest[i+4:]
			rest = rest[:i]
		}
		var k known
		k.desc = desc
		for _, f := range strings.Fields(rest) {
			if strings.HasPrefix(f, "property=") {
				k.prop = strings.TrimPrefix(f, "property=")
			} else if strings.HasPrefix(f, "sig=") {
				k.sig = strings.TrimPrefix(f, "sig=")
			}
		}
		if k.prop != "" && k.sig != "" {
			ks = append(ks, k)
		}
	}
	return ks, nil
}

func runParent(ck *Check, tier string, seed uint64, only string) int {
	t0 := time.Now()
	n := 1
	if ck.Shards != nil {
		n = ck.Shards(tier)
	}
	if n < 1 {
		n = 1
	}
	if only != "" {
		// replay/only: all shards still run but skip non-matching keys (cheap)
	}
	tmp, err := os.MkdirTemp("", "vcheck-"+ck.ID+"-")
	if err != nil {
		fmt.Printf("INCONCLUSIVE property=%s reason=mktemp:%v\n", ck.ID, err)
		return 2
	}
	defer os.RemoveAll(tmp)
	wd := ck.WatchdogQuick
	if tier == "thorough" {
		wd = ck.WatchdogThorough
	}
	if wd == 0 {
		wd = 6 * time.Minute
		if tier == "thorough" {
			wd = 90 * time.Minute
		}
	}

	type wres struct {
		r     *Result
		err   string
		fatal *Violation
	}
	results := make([]wres, n)
	var wg sync.WaitGroup
	sem := make(chan struct{}, runtime.NumCPU())
	for k := 0; k < n; k++ {
		wg.Add(1)
		go func(k int) {
			defer wg.Done()
			sem <- struct{}{}
			defer func() { <-sem }()
			out := filepath.Join(tmp, fmt.Sprintf("w%d.json", k))
			jr := filepath.Join(tmp, fmt.Sprintf("w%d.journal", k))
			se := filepath.Join(tmp, fmt.Sprintf("w%d.stderr", k))
			args := []string{ck.ID, "--worker", strconv.Itoa(k), "--nshards", strconv.Itoa(n), "--tier", tier,
				"--seed", strconv.FormatUint(seed, 10), "--out", out, "--journal", jr}
			if only != "" {
				args = append(args, "--only", only)
			}
			cmd := exec.Command(os.Args[0], args...)
			sef, _ := os.Create(se)
			cmd.Stdout = sef
			cmd.Stderr = sef
			cmd.Env = append(os.Environ(), "GOTRACEBACK=all")
			if ck.WorkerProcs > 0 {
				cmd.Env = append(cmd.Env, fmt.Sprintf("GOMAXPROCS=%d", ck.WorkerProcs))
			} else if os.Getenv("VERIF_WORKER_PROCS") == "" && n > 1 {
				cmd.Env = append(cmd.Env, "GOMAXPROCS=2")
			}
			if ck.Env != nil {
				cmd.Env = append(cmd.Env, ck.Env(tmp, k)...)
			}
			if err := cmd.Start(); err != nil {
				results[k].err = "start: " + err.Error()
				return
			}
			done := make(chan error, 1)
			go func() { done <- cmd.Wait() }()
			var werr error
			timedOut := false
			select {
			case werr = <-done:
			case <-time.After(wd):
				timedOut = true
				cmd.Process.Signal(syscall.SIGQUIT)
				select {
				case <-done:
				case <-time.After(10 * time.Second):
					cmd.Process.Kill()
					<-done
				}
			}
			sef.Close()
			if timedOut {
				results[k].err = fmt.Sprintf("watchdog %v fired (last case: %s)", wd, lastJournal(jr))
				return
			}
			b, rerr := os.ReadFile(out)
			var r Result
			if rerr == nil && json.Unmarshal(b, &r) == nil && r.Done {
				results[k].r = &r
				if werr != nil {
					results[k].err = "worker exited non-zero after writing result: " + werr.Error()
				}
				return
			}
			// dead worker: attribute to last journalled case
			last := lastJournal(jr)
			seb, _ := os.ReadFile(se)
			tail := string(seb)
			if len(tail) > 6000 {
				tail = tail[:6000]
			}
			sig := "fatal:" + fatalKind(tail) + "@" + TopLibFrame(tail)
			results[k].fatal = &Violation{Sig: sig, Msg: fmt.Sprintf("worker died (%v) while running case %q", werr, last), Key: firstLine(last), Case: map[string]string{"journal_tail": last}, Shard: k, Fatal: true, Stderr: tail}
		}(k)
	}
	wg.Wait()
	if only != "" {
		for k := 0; k < n; k++ {
			if b, err := os.ReadFile(filepath.Join(tmp, fmt.Sprintf("w%d.stderr", k))); err == nil && len(b) > 0 {
				os.Stderr.Write(b)
			}
		}
	}

	// merge
	merged := Result{Counters: map[string]int64{}}
	hashes := map[uint64]struct{}{}
	sets := map[string]map[string]struct{}{}
	var inconclusive []string
	exhaustive := true
	for k, w := range results {
		if w.err != "" {
			inconclusive = append(inconclusive, fmt.Sprintf("shard %d: %s", k, w.err))
		}
		if w.fatal != nil {
			merged.Violations = append(merged.Violations, *w.fatal)
			exhaustive = false
			continue
		}
		if w.r == nil {
			exhaustive = false
			continue
		}
		merged.Evaluations += w.r.Evaluations
		merged.ExactDistinct += w.r.ExactDistinct
		for _, h := range w.r.Hashes {
			hashes[h] = struct{}{}
		}
		for name, v := range w.r.Counters {
			if strings.HasPrefix(name, "max_") {
				if v > merged.Counters[name] {
					merged.Counters[name] = v
				}
			} else {
				merged.Counters[name] += v
			}
		}
		for name, l := range w.r.Sets {
			m := sets[name]
			if m == nil {
				m = map[string]struct{}{}
				sets[name] = m
			}
			for _, s := range l {
				m[s] = struct{}{}
			}
		}
		if len(merged.Samples) < 4 {
			for _, s := range w.r.Samples {
				if len(merged.Samples) < 4 {
					merged.Samples = append(merged.Samples, s)
				}
			}
		}
		merged.Violations = append(merged.Violations, w.r.Violations...)
		inconclusive = append(inconclusive, w.r.Inconclusive...)
		if !w.r.Exhaustive {
			exhaustive = false
		}
	}
	if ck.Serial != nil && only == "" {
		c := newCtx(ck, tier, seed, 0, 1)
		// the serial step runs library code in this process: a panic there is a finding like any other, not the end
		// of the run
		if pv, stack := Guard(func() { ck.Serial(c) }); pv != nil {
			c.Violate("serial-step:"+PanicSig(pv, stack), fmt.Sprintf("panic in the check's serial step: %v", pv), "serial", map[string]interface{}{"stack": stack})
		}
		r := c.finish()
		merged.Evaluations += r.Evaluations
		merged.ExactDistinct += r.ExactDistinct
		for _, h := range r.Hashes {
			hashes[h] = struct{}{}
		}
		for name, v := range r.Counters {
			merged.Counters[name] += v
		}
		merged.Violations = append(merged.Violations, r.Violations...)
		inconclusive = append(inconclusive, r.Inconclusive...)
	}
	distinct := int64(len(hashes)) + merged.ExactDistinct
	if only == "" && merged.Evaluations < ck.MinEvaluations {
		inconclusive = append(inconclusive, fmt.Sprintf("only %d evaluations observed, minimum is %d", merged.Evaluations, ck.MinEvaluations))
	}

	// classify violations against KNOWN_FINDINGS
	ks, kerr := loadKnown()
	if kerr != nil {
		inconclusive = append(inconclusive, "cannot read KNOWN_FINDINGS.txt: "+kerr.Error())
	}
	knownSeen := map[string]int{}
	knownDesc := map[string]string{}
	var unknown []Violation
	for _, v := range merged.Violations {
		matched := false
		for _, k := range ks {
			if k.prop == ck.ID && k.sig == v.Sig {
				matched = true
				knownSeen[v.Sig]++
				knownDesc[v.Sig] = k.desc
				break
			}
		}
		if !matched {
			unknown = append(unknown, v)
		}
	}
	sigs := make([]string, 0, len(knownSeen))
	for s := range knownSeen {
		sigs = append(sigs, s)
	}
	sort.Strings(sigs)
	for _, s := range sigs {
		fmt.Printf("KNOWN-FINDING: property=%s sig=%s %s\n", ck.ID, s, knownDesc[s])
	}
	os.MkdirAll(filepath.Join(OutDir, "replays"), 0755)
	seenSig := map[string]bool{}
	nviol := 0
	for _, v := range unknown {
		if seenSig[v.Sig] {
			continue
		}
		seenSig[v.Sig] = true
		nviol++
		rp := filepath.Join(OutDir, "replays", fmt.Sprintf("%s-%016x.json", ck.ID, Hash64(v.Sig, v.Key, strconv.FormatUint(seed, 10))))
		rb, _ := json.MarshalIndent(map[string]interface{}{"property": ck.ID, "seed": seed, "tier": tier, "key": v.Key, "sig": v.Sig, "msg": v.Msg, "case": v.Case, "stderr": v.Stderr}, "", " ")
		os.WriteFile(rp, rb, 0644)
		fmt.Printf("VIOLATION property=%s replay=%s\n", ck.ID, rp)
		fmt.Printf("  sig=%s\n  %s\n", v.Sig, oneLine(v.Msg, 600))
	}

	// evidence
	setSizes := map[string]int{}
	for name, m := range sets {
		setSizes[name] = len(m)
	}
	cov := map[string]interface{}{
		"evaluations":         merged.Evaluations,
		"distinct_nontrivial": distinct,
		"rule":                ck.Rule,
		"samples":             merged.Samples,
		"exhaustive":          exhaustive,
		"counters":            merged.Counters,
		"distinct_seen":       setSizes,
		"workers":             n,
		"known_findings_seen": knownSeen,
	}
	if len(merged.Samples) == 0 {
		cov["samples"] = []interface{}{"(no sample recorded)"}
	}
	ev := map[string]interface{}{
		"property_id":          ck.ID,
		"tier":                 tier,
		"seed":                 int64(seed),
		"level":                ck.Level,
		"coverage":             cov,
		"assumptions":          ck.Assumptions,
		"wall_s":               time.Since(t0).Seconds(),
		"violations":           nviol,
		"verdict":              verdict(nviol, inconclusive),
		"inconclusive_reasons": inconclusive,
	}
	if only == "" {
		eb, _ := json.MarshalIndent(ev, "", " ")
		os.MkdirAll(filepath.Join(OutDir, "evidence"), 0755)
		os.WriteFile(filepath.Join(OutDir, "evidence", ck.ID+".json"), eb, 0644)
	}
	fmt.Printf("%s tier=%s seed=%d evaluations=%d distinct_nontrivial=%d known_sigs=%d violations=%d wall=%.1fs\n",
		ck.ID, tier, seed, merged.Evaluations, distinct, len(knownSeen), nviol, time.Since(t0).Seconds())
	// print a compact view of what was observed
	names := make([]string, 0, len(merged.Counters))
	for k := range merged.Counters {
		names = append(names, k)
	}
	sort.Strings(names)
	var sb strings.Builder
	for _, k := range names {
		fmt.Fprintf(&sb, " %s=%d", k, merged.Counters[k])
	}
	for k, v := range setSizes {
		fmt.Fprintf(&sb, " |%s|=%d", k, v)
	}
	fmt.Println(" observed:" + sb.String())
	if nviol > 0 {
		return 1
	}
	if len(inconclusive) > 0 {
		for _, r := range inconclusive {
			fmt.Printf("INCONCLUSIVE property=%s reason=%s\n", ck.ID, oneLine(r, 300))
		}
		return 2
	}
	return 0
}

func verdict(nviol int, inc []string) string {
	if nviol > 0 {
		return "violated"
	}
	if len(inc) > 0 {
		return "inconclusive"
	}
	return "held on what was observed"
}

func oneLine(s string, n int) string {
	s = strings.ReplaceAll(s, "\n", " | ")
	if len(s) > n {
		s = s[:n] + "…"
	}
	return s
}

func firstLine(s string) string {
	if i := strings.Index(s, "\n"); i >= 0 {
		return s[:i]
	}
	return s
}

func lastJournal(path string) string {
	b, err := os.ReadFile(path)
	if err != nil {
		return ""
	}
	lines := strings.Split(strings.TrimRight(string(b), "\n"), "\n")
	// last case key line plus its notes
	idx := -1
	for i := len(lines) - 1; i >= 0; i-- {
		if !strings.HasPrefix(lines[i], "  # ") {
			idx = i
			break
		}
	}
	if idx < 0 {
		return ""
	}
	tail := lines[idx:]
	if len(tail) > 12 {
		tail = append(tail[:1], tail[len(tail)-10:]...)
	}
	return strings.Join(tail, "\n")
}

func fatalKind(stderr string) string {
	for _, ln := range strings.Split(stderr, "\n") {
		if strings.HasPrefix(ln, "fatal error: ") {
			return strings.ReplaceAll(strings.TrimPrefix(ln, "fatal error: "), " ", "_")
		}
		if strings.HasPrefix(ln, "panic: ") {
			return "panic_" + normPanic(strings.TrimPrefix(ln, "panic: "))
		}
		if strings.HasPrefix(ln, "runtime: out of memory") || strings.Contains(ln, "cannot allocate memory") {
			return "out_of_memory"
		}
	}
	if bytes.Contains([]byte(stderr), []byte("signal: killed")) {
		return "killed"
	}
	return "unknown"
}

func runReplay(ck *Check, path string) int {
	b, err := os.ReadFile(path)
	if err != nil {
		fmt.Fprintln(os.Stderr, err)
		return 3
	}
	var rp struct {
		Seed uint64 `json:"seed"`
		Tier string `json:"tier"`
		Key  string `json:"key"`
	}
	if err := json.Unmarshal(b, &rp); err != nil {
		fmt.Fprintln(os.Stderr, err)
		return 3
	}
	return runParent(ck, rp.Tier, rp.Seed, rp.Key)
}

// Recorder is the part of Ctx an oracle needs; Collector is a stand-alone implementation (fuzz targets).
type Recorder interface {
	Count(name string, n int64)
	Violate(sig, msg, key string, cs interface{})
}

type Collector struct {
	v []Violation
}

func NewCollector() *Collector                  { return &Collector{} }
func (c *Collector) Count(name string, n int64) {}
func (c *Collector) Violate(sig, msg, key string, cs interface{}) {
	c.v = append(c.v, Violation{Sig: sig, Msg: msg, Key: key})
}
func (c *Collector) Violations() []Violation { return c.v }
