// Package pgfake is an in-process transactional fake of the pgx driver surface that
// db/postgres uses (PgInterface, pgx.Tx, pgx.Rows). It models what Postgres does and the
// backend relies on: a statement error aborts the transaction (further statements fail until it
// is rolled back; committing it rolls back and reports ErrTxCommitRollback), commit publishes the
// transaction's writes, rollback discards them, a finished transaction answers ErrTxClosed, and a
// connection with an open result set is busy. Every primitive call is logged with a sequence
// number and can be made to fail.
package pgfake

import (
	"context"
	"errors"
	"fmt"
	"regexp"
	"sort"
	"strings"
	"sync"

	pgx "github.com/jackc/pgx/v5"
	"github.com/jackc/pgx/v5/pgconn"
)

// Server is the shared "database": one committed map.
type Server struct {
	mu        sync.Mutex
	committed map[string][]byte
}

func NewServer() *Server { return &Server{committed: map[string][]byte{}} }

// Seed writes directly into the committed map (test fixture).
func (s *Server) Seed(key, val []byte) {
	s.mu.Lock()
	s.committed[string(key)] = append([]byte{}, val...)
	s.mu.Unlock()
}

// Committed returns a copy of the committed map.
func (s *Server) Committed() map[string][]byte {
	s.mu.Lock()
	defer s.mu.Unlock()
	m := make(map[string][]byte, len(s.committed))
	for k, v := range s.committed {
		m[k] = append([]byte{}, v...)
	}
	return m
}

// Event is one primitive driver call.
type Event struct {
	Seq    int
	Kind   string // begin exec query next scan commit rollback close
	Tx     int
	Failed bool
	Note   string
}

// Conn implements postgres.PgInterface. One Conn per store handle.
type Conn struct {
	srv *Server
	mu  sync.Mutex

	seq     int
	Log     []Event
	KeepLog bool
	// CancelIdentity: injected failures are errors that wrap context.Canceled (a connection pool that gives up because
	// the context is done) instead of an anonymous error: what failed is the same, only the error's identity differs
	CancelIdentity bool
	// SQLState, if set, makes injected failures *pgconn.PgError values with that code (40001 serialization_failure,
	// 40P01 deadlock_detected, 57014 query_canceled ...): what a real server reports for a statement it refuses
	SQLState     string
	faults       map[int]bool // primitive sequence numbers that fail
	FaultsHit    int
	FaultKinds   []string
	Unmodelled   []string
	txs          []*Tx
	Closed       bool
	UseAfterEnd  int // statements issued on a finished transaction
	RedundantEnd int // commit/rollback on an already finished transaction (harmless in pgx; counted)
}

func (s *Server) Connect() *Conn { return &Conn{srv: s, faults: map[int]bool{}} }

// FailAt plans a failure of the primitive calls with these sequence numbers (0-based, per Conn).
func (c *Conn) FailAt(seqs ...int) {
	for _, s := range seqs {
		c.faults[s] = true
	}
}

// Seq is the number of primitive calls made so far.
func (c *Conn) Seq() int { return c.seq }

// PendingFaults reports whether a planned fault can still fire.
func (c *Conn) PendingFaults() bool {
	for s := range c.faults {
		if s >= c.seq {
			return true
		}
	}
	return false
}

var ErrInjected = errors.New("pgfake: injected failure")

func (c *Conn) injected() error {
	if c.SQLState != "" {
		return fmt.Errorf("pgfake: injected failure: %w", &pgconn.PgError{Severity: "ERROR", Code: c.SQLState, Message: "pgfake: injected failure"})
	}
	if c.CancelIdentity {
		return fmt.Errorf("pgfake: injected failure: %w", context.Canceled)
	}
	return ErrInjected
}

// prim registers a primitive call; returns true when it must fail.
func (c *Conn) prim(kind string, tx int) bool {
	n := c.seq
	c.seq++
	fail := c.faults[n]
	if fail {
		c.FaultsHit++
		c.FaultKinds = append(c.FaultKinds, kind)
	}
	if c.KeepLog {
		c.Log = append(c.Log, Event{Seq: n, Kind: kind, Tx: tx, Failed: fail})
	}
	return fail
}

func (c *Conn) BeginTx(ctx context.Context, opts pgx.TxOptions) (pgx.Tx, error) {
	c.mu.Lock()
	defer c.mu.Unlock()
	if c.Closed {
		return nil, errors.New("pgfake: connection closed")
	}
	if c.prim("begin", len(c.txs)) {
		return nil, c.injected()
	}
	tx := &Tx{c: c, id: len(c.txs), overlay: map[string][]byte{}}
	c.txs = append(c.txs, tx)
	return tx, nil
}

func (c *Conn) Close() {
	c.mu.Lock()
	c.Closed = true
	c.mu.Unlock()
}

// OpenTx lists transactions that were begun and never finished.
func (c *Conn) OpenTx() []int {
	var l []int
	for _, t := range c.txs {
		if !t.closed {
			l = append(l, t.id)
		}
	}
	return l
}

func (c *Conn) TxCount() int { return len(c.txs) }

// Tx implements pgx.Tx.
type Tx struct {
	c       *Conn
	id      int
	overlay map[string][]byte
	aborted bool
	closed  bool
	rows    *Rows
}

var (
	reUpsert  = regexp.MustCompile(`(?is)^\s*INSERT\s+INTO\s+\S+\.kv_vise\s*\(\s*key\s*,\s*value\s*,\s*updated\s*\)\s*VALUES\s*\(\s*\$1\s*,\s*\$2\s*,\s*'now'\s*\)\s*ON\s+CONFLICT\s*\(\s*key\s*\)\s*DO\s+UPDATE\s+SET\s+value\s*=\s*\$2\s*,\s*updated\s*=\s*'now'\s*;?\s*$`)
	reSelect1 = regexp.MustCompile(`(?is)^\s*SELECT\s+value\s+FROM\s+\S+\.kv_vise\s+WHERE\s+key\s*(=|>=|>|<=|<)\s*\$1\s*;?\s*$`)
	reSelect2 = regexp.MustCompile(`(?is)^\s*SELECT\s+key\s*,\s*value\s+FROM\s+\S+\.kv_vise\s+WHERE\s+key\s*(=|>=|>|<=|<)\s*\$1\s*;?\s*$`)
	reCreate  = regexp.MustCompile(`(?is)^\s*CREATE\s+TABLE\s+IF\s+NOT\s+EXISTS\s+\S+\.kv_vise\s*\(`)
)

func argBytes(a interface{}) ([]byte, bool) {
	switch v := a.(type) {
	case []byte:
		return v, true
	case string:
		return []byte(v), true
	}
	return nil, false
}

func (t *Tx) busy() bool { return t.rows != nil && !t.rows.closed }

func (t *Tx) stmtPre(kind string) error {
	if t.closed {
		t.c.UseAfterEnd++
		return pgx.ErrTxClosed
	}
	if t.busy() {
		return errors.New("pgfake: conn busy (result set still open)")
	}
	if t.c.prim(kind, t.id) {
		t.aborted = true
		return t.c.injected()
	}
	if t.aborted {
		return errors.New("ERROR: current transaction is aborted, commands ignored until end of transaction block (SQLSTATE 25P02)")
	}
	return nil
}

func (t *Tx) Exec(ctx context.Context, sql string, args ...any) (pgconn.CommandTag, error) {
	t.c.mu.Lock()
	defer t.c.mu.Unlock()
	if err := t.stmtPre("exec"); err != nil {
		return pgconn.CommandTag{}, err
	}
	switch {
	case reUpsert.MatchString(sql):
		if len(args) != 2 {
			t.c.Unmodelled = append(t.c.Unmodelled, "upsert with "+fmt.Sprint(len(args))+" args")
			return pgconn.CommandTag{}, errors.New("pgfake: unmodelled")
		}
		k, ok1 := argBytes(args[0])
		v, ok2 := argBytes(args[1])
		if !ok1 || !ok2 {
			t.c.Unmodelled = append(t.c.Unmodelled, "upsert arg types")
			return pgconn.CommandTag{}, errors.New("pgfake: unmodelled")
		}
		if v == nil {
			// value BYTEA NOT NULL
			t.aborted = true
			return pgconn.CommandTag{}, errors.New("ERROR: null value in column \"value\" violates not-null constraint (SQLSTATE 23502)")
		}
		t.overlay[string(k)] = append([]byte{}, v...)
		return pgconn.NewCommandTag("INSERT 0 1"), nil
	case reCreate.MatchString(sql):
		return pgconn.NewCommandTag("CREATE TABLE"), nil
	}
	t.c.Unmodelled = append(t.c.Unmodelled, "exec: "+short(sql))
	return pgconn.CommandTag{}, errors.New("pgfake: unmodelled statement")
}

func short(s string) string {
	s = strings.Join(strings.Fields(s), " ")
	if len(s) > 80 {
		s = s[:80]
	}
	return s
}

func cmpOp(op string, a, b string) bool {
	switch op {
	case "=":
		return a == b
	case ">=":
		return a >= b
	case ">":
		return a > b
	case "<=":
		return a <= b
	case "<":
		return a < b
	}
	return false
}

func (t *Tx) view() map[string][]byte {
	t.c.srv.mu.Lock()
	m := make(map[string][]byte, len(t.c.srv.committed)+len(t.overlay))
	for k, v := range t.c.srv.committed {
		m[k] = v
	}
	t.c.srv.mu.Unlock()
	for k, v := range t.overlay {
		m[k] = v
	}
	return m
}

func (t *Tx) Query(ctx context.Context, sql string, args ...any) (pgx.Rows, error) {
	t.c.mu.Lock()
	defer t.c.mu.Unlock()
	if err := t.stmtPre("query"); err != nil {
		return nil, err
	}
	var m []string
	cols := 0
	if m = reSelect1.FindStringSubmatch(sql); m != nil {
		cols = 1
	} else if m = reSelect2.FindStringSubmatch(sql); m != nil {
		cols = 2
	} else {
		t.c.Unmodelled = append(t.c.Unmodelled, "query: "+short(sql))
		return nil, errors.New("pgfake: unmodelled query")
	}
	if len(args) != 1 {
		t.c.Unmodelled = append(t.c.Unmodelled, "query args")
		return nil, errors.New("pgfake: unmodelled")
	}
	k, ok := argBytes(args[0])
	if !ok {
		t.c.Unmodelled = append(t.c.Unmodelled, "query arg type")
		return nil, errors.New("pgfake: unmodelled")
	}
	view := t.view()
	var keys []string
	for kk := range view {
		if cmpOp(m[1], kk, string(k)) {
			keys = append(keys, kk)
		}
	}
	sort.Strings(keys)
	r := &Rows{t: t, cols: cols}
	for _, kk := range keys {
		r.data = append(r.data, [2][]byte{[]byte(kk), append([]byte{}, view[kk]...)})
	}
	t.rows = r
	return r, nil
}

func (t *Tx) Commit(ctx context.Context) error {
	t.c.mu.Lock()
	defer t.c.mu.Unlock()
	if t.closed {
		t.c.RedundantEnd++
		return pgx.ErrTxClosed
	}
	if t.rows != nil {
		t.rows.closed = true
	}
	fail := t.c.prim("commit", t.id)
	t.closed = true
	if fail {
		return t.c.injected() // not committed; the transaction is gone
	}
	if t.aborted {
		return pgx.ErrTxCommitRollback
	}
	t.c.srv.mu.Lock()
	for k, v := range t.overlay {
		t.c.srv.committed[k] = v
	}
	t.c.srv.mu.Unlock()
	return nil
}

func (t *Tx) Rollback(ctx context.Context) error {
	t.c.mu.Lock()
	defer t.c.mu.Unlock()
	if t.closed {
		t.c.RedundantEnd++
		return pgx.ErrTxClosed
	}
	if t.rows != nil {
		t.rows.closed = true
	}
	fail := t.c.prim("rollback", t.id)
	// pgx: a transaction is closed after any Rollback attempt, and its writes are gone either way
	t.closed = true
	if fail {
		return t.c.injected()
	}
	return nil
}

func (t *Tx) unmodelled(what string) {
	t.c.mu.Lock()
	t.c.Unmodelled = append(t.c.Unmodelled, what)
	t.c.mu.Unlock()
}

func (t *Tx) Begin(ctx context.Context) (pgx.Tx, error) {
	t.unmodelled("Tx.Begin")
	return nil, errors.New("pgfake: unmodelled")
}
func (t *Tx) CopyFrom(ctx context.Context, tableName pgx.Identifier, columnNames []string, rowSrc pgx.CopyFromSource) (int64, error) {
	t.unmodelled("Tx.CopyFrom")
	return 0, errors.New("pgfake: unmodelled")
}
func (t *Tx) SendBatch(ctx context.Context, b *pgx.Batch) pgx.BatchResults {
	t.unmodelled("Tx.SendBatch")
	return nil
}
func (t *Tx) LargeObjects() pgx.LargeObjects {
	t.unmodelled("Tx.LargeObjects")
	return pgx.LargeObjects{}
}
func (t *Tx) Prepare(ctx context.Context, name, sql string) (*pgconn.StatementDescription, error) {
	t.unmodelled("Tx.Prepare")
	return nil, errors.New("pgfake: unmodelled")
}
func (t *Tx) QueryRow(ctx context.Context, sql string, args ...any) pgx.Row {
	t.unmodelled("Tx.QueryRow")
	return nil
}
func (t *Tx) Conn() *pgx.Conn { return nil }

// Rows implements pgx.Rows.
type Rows struct {
	t      *Tx
	cols   int
	data   [][2][]byte
	pos    int // index of the current row + 1
	closed bool
	err    error
}

func (r *Rows) Close() {
	r.t.c.mu.Lock()
	r.closed = true
	r.t.c.mu.Unlock()
}
func (r *Rows) Err() error                                   { return r.err }
func (r *Rows) CommandTag() pgconn.CommandTag                { return pgconn.NewCommandTag("SELECT") }
func (r *Rows) FieldDescriptions() []pgconn.FieldDescription { return nil }
func (r *Rows) Conn() *pgx.Conn                              { return nil }

func (r *Rows) Next() bool {
	r.t.c.mu.Lock()
	defer r.t.c.mu.Unlock()
	if r.closed {
		return false
	}
	if r.pos >= len(r.data) {
		r.closed = true
		return false
	}
	// fetching a row is a primitive that can fail: the result set ends prematurely, Err() reports it
	if r.t.c.prim("next", r.t.id) {
		r.closed = true
		r.err = r.t.c.injected()
		r.t.aborted = true
		return false
	}
	r.pos++
	return true
}

func (r *Rows) Scan(dest ...any) error {
	r.t.c.mu.Lock()
	defer r.t.c.mu.Unlock()
	if r.pos == 0 || r.pos > len(r.data) {
		return errors.New("pgfake: Scan without a current row")
	}
	if r.t.c.prim("scan", r.t.id) {
		r.closed = true // pgx closes the rows on a scan error
		r.err = r.t.c.injected()
		return r.err
	}
	row := r.data[r.pos-1]
	src := [][]byte{row[1]}
	if r.cols == 2 {
		src = [][]byte{row[0], row[1]}
	}
	if len(dest) != len(src) {
		return fmt.Errorf("pgfake: Scan of %d columns into %d destinations", len(src), len(dest))
	}
	for i, d := range dest {
		p, ok := d.(*[]byte)
		if !ok {
			return fmt.Errorf("pgfake: unsupported Scan destination %T", d)
		}
		*p = append([]byte{}, src[i]...)
	}
	return nil
}

func (r *Rows) Values() ([]any, error) { return nil, errors.New("pgfake: unmodelled Values") }
func (r *Rows) RawValues() [][]byte    { return nil }
