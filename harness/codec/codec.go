// Package codec holds the harness's own view of the go-vise bytecode format: an instruction AST,
// an encoder that goes through the library's vm.NewLine, an independent decoder / strict validator
// written from the format description, and a printer/parser for the disassembler's text form.
package codec

import (
	"encoding/binary"
	"errors"
	"fmt"
	"strconv"
	"strings"

	"git.defalsify.org/vise.git/vm"
)

const (
	CATCH  = 1
	CROAK  = 2
	LOAD   = 3
	RELOAD = 4
	MAP    = 5
	MOVE   = 6
	HALT   = 7
	INCMP  = 8
	MSINK  = 9
	MOUT   = 10
	MNEXT  = 11
	MPREV  = 12
)

var OpName = map[uint16]string{1: "CATCH", 2: "CROAK", 3: "LOAD", 4: "RELOAD", 5: "MAP", 6: "MOVE", 7: "HALT", 8: "INCMP", 9: "MSINK", 10: "MOUT", 11: "MNEXT", 12: "MPREV"}
var OpCode = map[string]uint16{"CATCH": 1, "CROAK": 2, "LOAD": 3, "RELOAD": 4, "MAP": 5, "MOVE": 6, "HALT": 7, "INCMP": 8, "MSINK": 9, "MOUT": 10, "MNEXT": 11, "MPREV": 12}

// Ins is one instruction. S1/S2 are the string arguments in wire order, N the integer, Mode the match mode.
type Ins struct {
	Op   uint16 `json:"op"`
	S1   string `json:"s1,omitempty"`
	S2   string `json:"s2,omitempty"`
	N    uint32 `json:"n,omitempty"`
	Mode bool   `json:"mode,omitempty"`
}

func (i Ins) String() string {
	m := 0
	if i.Mode {
		m = 1
	}
	switch i.Op {
	case CATCH:
		return fmt.Sprintf("CATCH %s %d %d", i.S1, i.N, m)
	case CROAK:
		return fmt.Sprintf("CROAK %d %d", i.N, m)
	case LOAD:
		return fmt.Sprintf("LOAD %s %d", i.S1, i.N)
	case RELOAD, MAP, MOVE:
		return fmt.Sprintf("%s %s", OpName[i.Op], i.S1)
	case HALT, MSINK:
		return OpName[i.Op]
	case INCMP, MOUT, MNEXT, MPREV:
		return fmt.Sprintf("%s %s %s", OpName[i.Op], i.S1, i.S2)
	}
	return fmt.Sprintf("OP%d", i.Op)
}

// Shape: number of string args, has int, has mode
func Shape(op uint16) (nstr int, hasInt, hasMode bool, ok bool) {
	switch op {
	case CATCH:
		return 1, true, true, true
	case CROAK:
		return 0, true, true, true
	case LOAD:
		return 1, true, false, true
	case RELOAD, MAP, MOVE:
		return 1, false, false, true
	case HALT, MSINK:
		return 0, false, false, true
	case INCMP, MOUT, MNEXT, MPREV:
		return 2, false, false, true
	}
	return 0, false, false, false
}

// IntBytes is the minimal big-endian representation used on the wire (one zero byte for 0).
func IntBytes(n uint32) []byte {
	var b [4]byte
	binary.BigEndian.PutUint32(b[:], n)
	i := 0
	for i < 3 && b[i] == 0 {
		i++
	}
	return append([]byte{}, b[i:]...)
}

// Encode appends the instruction through the library's encoder vm.NewLine.
func Encode(b []byte, i Ins) []byte {
	nstr, hasInt, hasMode, _ := Shape(i.Op)
	var strs []string
	if nstr >= 1 {
		strs = append(strs, i.S1)
	}
	if nstr >= 2 {
		strs = append(strs, i.S2)
	}
	var ib []byte
	if hasInt {
		ib = IntBytes(i.N)
	}
	var nb []uint8
	if hasMode {
		if i.Mode {
			nb = []uint8{1}
		} else {
			nb = []uint8{0}
		}
	}
	return vm.NewLine(b, i.Op, strs, ib, nb)
}

func EncodeAll(prog []Ins) []byte {
	var b []byte
	for _, i := range prog {
		b = Encode(b, i)
	}
	if b == nil {
		b = []byte{}
	}
	return b
}

// Malformation classes of the strict validator.
const (
	Valid         = "complete-valid"
	Truncated     = "truncated"
	BadOpcode     = "bad-opcode"
	OverlongInt   = "overlong-int"
	ZeroLenSymbol = "zero-length-symbol"
	Empty         = "empty"
	NoopOpcode    = "noop-opcode" // opcode 0 is defined as NOOP but is no instruction: don't-care
)

// Decode is the independent decoder: it returns the instructions of the longest valid prefix, the
// classification of the whole string and the offset at which the first malformation was detected.
func Decode(b []byte) (prog []Ins, class string, off int) {
	if len(b) == 0 {
		return nil, Empty, 0
	}
	p := 0
	for p < len(b) {
		start := p
		if len(b)-p < 2 {
			return prog, Truncated, start
		}
		op := binary.BigEndian.Uint16(b[p:])
		p += 2
		if op == 0 {
			return prog, NoopOpcode, start
		}
		nstr, hasInt, hasMode, ok := Shape(op)
		if !ok {
			return prog, BadOpcode, start
		}
		ins := Ins{Op: op}
		for k := 0; k < nstr; k++ {
			if p >= len(b) {
				return prog, Truncated, start
			}
			l := int(b[p])
			p++
			if l == 0 {
				return prog, ZeroLenSymbol, start
			}
			if p+l > len(b) {
				return prog, Truncated, start
			}
			s := string(b[p : p+l])
			p += l
			if k == 0 {
				ins.S1 = s
			} else {
				ins.S2 = s
			}
		}
		if hasInt {
			if p >= len(b) {
				return prog, Truncated, start
			}
			l := int(b[p])
			p++
			if l > 4 {
				return prog, OverlongInt, start
			}
			if p+l > len(b) {
				return prog, Truncated, start
			}
			var n uint32
			for k := 0; k < l; k++ {
				n = n<<8 | uint32(b[p+k])
			}
			p += l
			ins.N = n
		}
		if hasMode {
			if p >= len(b) {
				return prog, Truncated, start
			}
			ins.Mode = b[p] > 0
			p++
		}
		prog = append(prog, ins)
	}
	return prog, Valid, len(b)
}

// ParseText parses the disassembler's listing (one instruction per line) back into instructions.
// Arguments are split on single spaces: the first N-1 fields are taken from the left and the rest
// is the last argument, so it is only exact for arguments without spaces/newlines (callers ensure).
func ParseText(s string) ([]Ins, error) {
	var prog []Ins
	if s == "" {
		return nil, nil
	}
	if !strings.HasSuffix(s, "\n") {
		return nil, fmt.Errorf("listing does not end in newline")
	}
	for _, ln := range strings.Split(strings.TrimSuffix(s, "\n"), "\n") {
		f := strings.Split(ln, " ")
		op, ok := OpCode[f[0]]
		if !ok {
			return nil, fmt.Errorf("unknown mnemonic %q", f[0])
		}
		nstr, hasInt, hasMode, _ := Shape(op)
		want := 1 + nstr
		if hasInt {
			want++
		}
		if hasMode {
			want++
		}
		if len(f) != want {
			return nil, fmt.Errorf("line %q: %d fields, want %d", ln, len(f), want)
		}
		ins := Ins{Op: op}
		k := 1
		if nstr >= 1 {
			ins.S1 = f[k]
			k++
		}
		if nstr >= 2 {
			ins.S2 = f[k]
			k++
		}
		if hasInt {
			n, err := strconv.ParseUint(f[k], 10, 32)
			if err != nil {
				return nil, fmt.Errorf("line %q: %v", ln, err)
			}
			ins.N = uint32(n)
			k++
		}
		if hasMode {
			switch f[k] {
			case "0":
			case "1":
				ins.Mode = true
			default:
				return nil, fmt.Errorf("line %q: mode %q", ln, f[k])
			}
		}
		prog = append(prog, ins)
	}
	return prog, nil
}

func Equal(a, b []Ins) bool {
	if len(a) != len(b) {
		return false
	}
	for i := range a {
		if a[i] != b[i] {
			return false
		}
	}
	return true
}

func Strings(p []Ins) []string {
	s := make([]string, len(p))
	for i, x := range p {
		s[i] = x.String()
	}
	return s
}

// VMDecode decodes with the VM's own per-opcode parsers (the path vm.Run uses). Panics propagate.
// ErrUndefinedOpcodeAccepted: the exported opcode splitter returned success for an opcode outside the instruction set.
var ErrUndefinedOpcodeAccepted = errors.New("vm.ParseOp accepted an undefined opcode")

func VMDecode(b []byte) (prog []Ins, rest []byte, err error) {
	for len(b) > 0 {
		op, bb, e := vm.ParseOp(b)
		if e != nil {
			return prog, b, e
		}
		b = bb
		ins := Ins{Op: uint16(op)}
		switch op {
		case vm.CATCH:
			ins.S1, ins.N, ins.Mode, b, e = vm.ParseCatch(b)
		case vm.CROAK:
			ins.N, ins.Mode, b, e = vm.ParseCroak(b)
		case vm.LOAD:
			ins.S1, ins.N, b, e = vm.ParseLoad(b)
		case vm.RELOAD:
			ins.S1, b, e = vm.ParseReload(b)
		case vm.MAP:
			ins.S1, b, e = vm.ParseMap(b)
		case vm.MOVE:
			ins.S1, b, e = vm.ParseMove(b)
		case vm.HALT:
			b, e = vm.ParseHalt(b)
		case vm.INCMP:
			ins.S1, ins.S2, b, e = vm.ParseInCmp(b)
		case vm.MSINK:
			b, e = vm.ParseMSink(b)
		case vm.MOUT:
			ins.S1, ins.S2, b, e = vm.ParseMOut(b)
		case vm.MNEXT:
			ins.S1, ins.S2, b, e = vm.ParseMNext(b)
		case vm.MPREV:
			ins.S1, ins.S2, b, e = vm.ParseMPrev(b)
		default:
			if op == 0 {
				return prog, b, fmt.Errorf("opcode 0 (NOOP) has no decoder") // don't-care
			}
			// vm.ParseOp handed out an opcode that does not exist, with a nil error
			return prog, b, ErrUndefinedOpcodeAccepted
		}
		if e != nil {
			return prog, b, e
		}
		prog = append(prog, ins)
	}
	return prog, b, nil
}
