package checks

import (
	"bytes"
	"encoding/json"
	"errors"
	"fmt"
	"os"
	"os/exec"
	"path/filepath"
	"regexp"
	"runtime"
	"sort"
	"strconv"
	"strings"
	"syscall"
	"verif/harness/codec"

	"git.defalsify.org/vise.git/db"

	"verif/harness/app"
	"verif/harness/vk"
)

// ---------------------------------------------------------------------------------------------
// C12 — saving to the filesystem store is crash-atomic: real process death at real syscall boundaries

const (
	markBegin = "/VERIF_MARK_BEGIN"
	markEnd   = "/VERIF_MARK_END"
	c12Trace  = "openat,creat,write,pwrite64,writev,rename,renameat,renameat2,unlink,unlinkat,link,linkat,ftruncate,truncate,fsync,fdatasync,close,mkdir,mkdirat,faccessat,faccessat2,access,fchmod,fchmodat,symlinkat"
)

type c12case struct {
	a    *app.App
	cfg  app.Config
	hist []string
}

func c12Case(seed uint64, key string) *c12case {
	r := vk.CaseRNG(seed, key)
	if strings.HasPrefix(key, "samesize/") {
		// every save replaces the record by one of exactly the same length: a value of constant length that changes
		// with every request, at an unchanged position
		a := app.NewApp()
		a.FlagCount = 1
		a.AddNode(&app.Node{Name: "root", Template: "value {{.v}} and {{.w}}", Code: []codec.Ins{
			{Op: codec.LOAD, S1: "v", N: 40}, {Op: codec.LOAD, S1: "w", N: 40}, {Op: codec.MAP, S1: "v"}, {Op: codec.MAP, S1: "w"}, {Op: codec.MOUT, S1: "again", S2: "1"}, {Op: codec.HALT},
			{Op: codec.INCMP, S1: "rel", S2: "1"}}})
		a.AddNode(&app.Node{Name: "rel", Template: "reload", Code: []codec.Ins{{Op: codec.RELOAD, S1: "v"}, {Op: codec.RELOAD, S1: "w"}, {Op: codec.MOVE, S1: "_"}}})
		a.AddNode(&app.Node{Name: "_catch", Template: "catch page", Code: []codec.Ins{{Op: codec.HALT}, {Op: codec.INCMP, S1: "_", S2: "*"}}})
		a.Funcs["v"] = &app.FuncSpec{Sym: "v", Kind: "len", Lens: []int{r.Range(8, 30)}}
		a.Funcs["w"] = &app.FuncSpec{Sym: "w", Kind: "len", Lens: []int{r.Range(8, 30)}}
		a.Finalize()
		hist := []string{""}
		for k := 0; k < r.Range(3, 6); k++ {
			hist = append(hist, "1")
		}
		return &c12case{a, app.Config{FlagCount: 1, SessionId: "victim", Root: "root"}, hist}
	}
	p := specProfile(r)
	p.Terminate = false
	p.LoadErrors = false
	p.BigValues = r.Chance(1, 3)
	a := app.Generate(r, p)
	cfg := genConfig(r, a, "victim")
	cfg.CacheSize = 0
	if r.Chance(1, 3) {
		// a big snapshot (> 4 KiB): a function that returns a large value
		var syms []string
		for s := range a.Funcs {
			syms = append(syms, s)
		}
		sort.Strings(syms) // map order must not differ between the parent and the traced child
		for _, s := range syms {
			f := a.Funcs[s]
			if f.Kind == "id" {
				f.Kind = "len"
				f.Lens = []int{5000, 9000, 100}
				break
			}
		}
		for _, n := range a.Nodes {
			for i := range n.Code {
				if n.Code[i].Op == 3 && n.Code[i].N != 0 { // LOAD
					n.Code[i].N = 20000
				}
			}
		}
		a.Finalize()
	}
	hist := a.History(r, r.Range(2, 8))
	return &c12case{a, cfg, hist}
}

// C12Child is the traced child: one real engine request on the fs store, bracketed by marker syscalls.
// args: seed key step dir callsJSON
func C12Child(args []string) {
	runtime.LockOSThread()
	seed, _ := strconv.ParseUint(args[0], 10, 64)
	key := args[1]
	step, _ := strconv.Atoi(args[2])
	dir := args[3]
	calls := map[string]int{}
	json.Unmarshal([]byte(args[4]), &calls)
	cs := c12Case(seed, key)
	b := &app.Backend{Kind: "fs", Dir: dir}
	pr := app.NewPerRequest(cs.a, cs.cfg, b)
	pr.SkipStoredRead = true
	pr.Res.Calls = calls
	pr.AfterFinish = func() { syscall.Access(markEnd, 0) }
	syscall.Access(markBegin, 0)
	o := pr.Request([]byte(cs.hist[step]))
	if o.Panic != "" || o.FinishErr != "" {
		fmt.Fprintln(os.Stderr, "child:", o.Brief(), o.FinishErr)
		os.Exit(7)
	}
	os.Exit(0)
}

type c12sys struct {
	Tid     string
	Name    string
	Args    string
	Ordinal int    // per-tid ordinal of this syscall name, counted from process start
	Path    string // file concerned (from openat / rename / fd table)
	Payload []byte // write payload
	Fd      string
	Offset  int64 // pwrite64: file offset
}

var reStrace = regexp.MustCompile(`^(\d+)\s+([a-z0-9_]+)\((.*)$`)
var rePwriteOff = regexp.MustCompile(`,\s*(\d+)\)\s*=`)
var reHexStr = regexp.MustCompile(`"((?:\\x[0-9a-f]{2})*)"`)

func unhex(s string) []byte {
	var b []byte
	for i := 0; i+3 < len(s)+1 && i < len(s); i += 4 {
		v, err := strconv.ParseUint(s[i+2:i+4], 16, 8)
		if err != nil {
			break
		}
		b = append(b, byte(v))
	}
	return b
}

// parseTrace returns the syscalls of the main thread between the markers.
func parseTrace(path string, dir string) (calls []c12sys, sawBegin, sawEnd bool, mainTid string) {
	b, err := os.ReadFile(path)
	if err != nil {
		return
	}
	counts := map[string]int{}
	fds := map[string]string{}
	in := false
	for _, ln := range strings.Split(string(b), "\n") {
		m := reStrace.FindStringSubmatch(ln)
		if m == nil {
			continue
		}
		tid, name, rest := m[1], m[2], m[3]
		if mainTid == "" {
			mainTid = tid
		}
		if strings.Contains(rest, "<unfinished") && !strings.Contains(ln, "+++") {
			// an unfinished call of another thread is resumed later; count it at entry
		}
		if strings.HasPrefix(rest, " <... ") { // resumed line
			continue
		}
		counts[tid+":"+name]++
		if tid != mainTid {
			continue
		}
		strs := reHexStr.FindAllStringSubmatch(rest, -1)
		first := ""
		if len(strs) > 0 {
			first = string(unhex(strs[0][1]))
		}
		if name == "faccessat" || name == "faccessat2" || name == "access" {
			if first == markBegin {
				in, sawBegin = true, true
				continue
			}
			if first == markEnd {
				in, sawEnd = false, true
				continue
			}
		}
		s := c12sys{Tid: tid, Name: name, Args: rest, Ordinal: counts[tid+":"+name]}
		switch name {
		case "openat", "creat":
			s.Path = first
			if i := strings.LastIndex(rest, "= "); i >= 0 {
				fd := strings.TrimSpace(rest[i+2:])
				if _, err := strconv.Atoi(fd); err == nil {
					fds[fd] = first
					s.Fd = fd
				}
			}
		case "write", "pwrite64", "writev", "fsync", "fdatasync", "ftruncate", "close", "fchmod":
			fd := strings.TrimSpace(strings.SplitN(rest, ",", 2)[0])
			fd = strings.TrimSuffix(fd, ")")
			if i := strings.Index(fd, ")"); i >= 0 {
				fd = fd[:i]
			}
			s.Fd = fd
			s.Path = fds[fd]
			if (name == "write" || name == "pwrite64") && len(strs) > 0 {
				s.Payload = unhex(strs[0][1])
			}
			if name == "pwrite64" {
				if m := rePwriteOff.FindStringSubmatch(rest); m != nil {
					s.Offset, _ = strconv.ParseInt(m[1], 10, 64)
				}
			}
		case "rename", "renameat", "renameat2", "link", "linkat", "unlink", "unlinkat", "mkdir", "mkdirat", "truncate", "symlinkat", "fchmodat":
			for _, x := range strs {
				p := string(unhex(x[1]))
				if strings.HasPrefix(p, dir) {
					s.Path = p
				}
			}
		}
		if in && strings.HasPrefix(s.Path, dir) {
			calls = append(calls, s)
		}
	}
	return
}

func copyDir(src, dst string) error {
	os.MkdirAll(dst, 0700)
	es, err := os.ReadDir(src)
	if err != nil {
		return err
	}
	for _, e := range es {
		b, err := os.ReadFile(filepath.Join(src, e.Name()))
		if err != nil {
			return err
		}
		if err := os.WriteFile(filepath.Join(dst, e.Name()), b, 0600); err != nil {
			return err
		}
	}
	return nil
}

func dirDigest(dir, skipSuffix string) string {
	es, _ := os.ReadDir(dir)
	var sb strings.Builder
	for _, e := range es {
		if strings.HasPrefix(e.Name(), ".") {
			continue // temporary files of an interrupted save are not records
		}
		if skipSuffix != "" && strings.HasSuffix(e.Name(), skipSuffix) {
			continue
		}
		b, _ := os.ReadFile(filepath.Join(dir, e.Name()))
		fmt.Fprintf(&sb, "%s=%x;", e.Name(), vk.HashBytes(b))
	}
	return sb.String()
}

type c12ref struct {
	st  *app.StateSnap
	ca  *app.CacheSnap
	err string
	out string // continuation output
}

// c12Load reads the stored session through a fresh handle.
func c12Load(cs *c12case, dir string) c12ref {
	pr := app.NewPerRequest(cs.a, cs.cfg, &app.Backend{Kind: "fs", Dir: dir})
	var r c12ref
	r.st, r.ca, r.err = pr.ReadStored()
	return r
}

// c12Serve serves the next input with a fresh engine on the directory (this modifies the directory).
func c12Serve(cs *c12case, dir string, calls map[string]int, next string) string {
	pr := app.NewPerRequest(cs.a, cs.cfg, &app.Backend{Kind: "fs", Dir: dir})
	pr.Res.Calls = cloneCalls(calls)
	pr.SkipStoredRead = true
	o := pr.Request([]byte(next))
	return fmt.Sprintf("cont=%v exec=%s flush=%s out=%q", o.Cont, app.ErrClass(o.ExecErr), app.ErrClass(o.FlushErr), o.Out)
}

func C12() *vk.Check {
	return &vk.Check{ID: "C12", Level: "fault_enumeration", MinEvaluations: 20, Shards: func(string) int { return 8 }, Run: runC12,
		WorkerProcs: 2,
		Rule: "real process death at real system-call boundaries. A child process (the harness binary, main goroutine locked to its OS thread) performs ONE real engine request on the fs store (Exec, Flush, Finish -> Persister.Save -> fsdb.Put) with marker syscalls around Finish. Run 1 is traced with strace (-f -xx -s 1000000) to record every file-system syscall of the save that touches the store directory (openat/write/rename/unlink/fsync/close/...) with its per-thread ordinal and write payload; then for each recorded syscall the child is re-run with strace -e inject=<name>:signal=SIGKILL:when=<ordinal>: the kill is delivered on syscall entry, so the directory holds exactly the state 'after the syscalls before it'. Torn writes are produced from the state 'killed before write i' by appending the first j bytes of that write's recorded payload (j in {1, n/2, n-1} and page multiples). " +
			"Recovery oracle on each crash directory: Persister.Load decodes to a state/cache equal to the complete old or the complete new snapshot (first-ever save: no record or new), a fresh engine given the next input produces the continuation-from-old or continuation-from-new output (never a silently restarted session), and the records of two other sessions are unchanged. Old/new pairs come from generated histories (small and > 4 KiB snapshots, first save, save after session end). distinct = (old/new pair, crash point); non-trivial = every crash state between the first and the last syscall of the save.",
		Assumptions: []string{"process death, not power loss: the page cache survives, fsync ordering is not examined", "strace/ptrace must work in the sandbox, otherwise the check is inconclusive", "files whose name starts with '.' are temporary files, not records"}}
}

func runC12(c *vk.Ctx) {
	if _, err := exec.LookPath("strace"); err != nil {
		c.Inconclusive("strace not found")
		return
	}
	self, _ := os.Executable()
	recordFailures, planned := 0, 0
	defer func() {
		if planned > 0 && recordFailures*2 > planned {
			c.Inconclusive(fmt.Sprintf("%d of %d pairs could not be recorded with strace", recordFailures, planned))
		}
	}()
	n := c.N(12, 300)
	nsame := c.N(3, 40)
	for i := 0; i < n+nsame; i++ {
		if !c.Mine(i) {
			continue
		}
		key := fmt.Sprintf("pair/%d", i)
		if i >= n {
			key = fmt.Sprintf("samesize/%d", i-n)
		}
		if !c.Want(key) {
			continue
		}
		cs := c12Case(c.Seed, key)
		planned++
		c.Begin(key)
		// every second pair keeps the store on another file system than the process' temporary directory
		// (a deployment where TMPDIR is a tmpfs and the store is on disk, or the other way round): a save that
		// stages its data anywhere but next to the record cannot finish with an atomic rename there
		base := ""
		if i%2 == 1 {
			base = otherFilesystemDir()
		}
		tmp, err := os.MkdirTemp(base, "c12-")
		if err != nil {
			c.Inconclusive(err.Error())
			return
		}
		if base != "" {
			c.Count("pairs_with_store_on_other_filesystem_than_TMPDIR", 1)
		}
		func() {
			defer os.RemoveAll(tmp)
			// choose the step whose save is crashed
			r := c.RNG(key + "/step")
			d0 := filepath.Join(tmp, "d0")
			os.MkdirAll(d0, 0700)
			// two other sessions
			for _, other := range []string{"otherA", "otherB"} {
				ocfg := cs.cfg
				ocfg.SessionId = other
				pr := app.NewPerRequest(cs.a, ocfg, &app.Backend{Kind: "fs", Dir: d0})
				pr.SkipStoredRead = true
				pr.Request([]byte(""))
				pr.Request([]byte(vk.Pick(r, append(cs.a.Alphabet(), "zz"))))
			}
			// run the history up to the chosen step in-process
			pr := app.NewPerRequest(cs.a, cs.cfg, &app.Backend{Kind: "fs", Dir: d0})
			pr.SkipStoredRead = true
			k := 0
			if i%4 != 0 { // every fourth pair crashes the very first save
				k = r.Range(1, len(cs.hist)-1)
			}
			ended := false
			for s := 0; s < k; s++ {
				o := pr.Request([]byte(cs.hist[s]))
				if o.ExecErr != "" || o.Panic != "" {
					k = s
					break
				}
				if !o.Cont {
					ended = true
				}
			}
			_ = ended
			callsBefore := cloneCalls(pr.Res.Calls)
			next := "0"
			if k+1 < len(cs.hist) {
				next = cs.hist[k+1]
			}
			// reference "new": run step k in-process on a copy
			dn := filepath.Join(tmp, "dn")
			copyDir(d0, dn)
			prn := app.NewPerRequest(cs.a, cs.cfg, &app.Backend{Kind: "fs", Dir: dn})
			prn.SkipStoredRead = true
			prn.Res.Calls = cloneCalls(callsBefore)
			on := prn.Request([]byte(cs.hist[k]))
			if on.Panic != "" || on.FinishErr != "" {
				c.Count("pairs_skipped_request_fails", 1)
				return
			}
			callsAfter := cloneCalls(prn.Res.Calls)
			dOldCopy := filepath.Join(tmp, "dold")
			copyDir(d0, dOldCopy)
			refOld := c12Load(cs, dOldCopy)
			refOld.out = c12Serve(cs, dOldCopy, callsBefore, next)
			dNewCopy := filepath.Join(tmp, "dnew")
			copyDir(dn, dNewCopy)
			refNew := c12Load(cs, dNewCopy)
			refNew.out = c12Serve(cs, dNewCopy, callsAfter, next)
			firstSave := refOld.err != ""
			dFresh := filepath.Join(tmp, "dfresh")
			os.MkdirAll(dFresh, 0700)
			freshOut := c12Serve(cs, dFresh, map[string]int{}, next)
			othersDigest := dirDigest(d0, "victim")
			callsJSON, _ := json.Marshal(callsBefore)
			childArgs := []string{"C12CHILD", strconv.FormatUint(c.Seed, 10), key, strconv.Itoa(k)}
			// run 1: record
			dt := filepath.Join(tmp, "dt")
			copyDir(d0, dt)
			trace := filepath.Join(tmp, "trace.txt")
			var calls []c12sys
			var sawB, sawE bool
			var lastErr string
			for attempt := 0; attempt < 3; attempt++ {
				os.RemoveAll(dt)
				copyDir(d0, dt)
				os.Remove(trace)
				cmd := exec.Command("strace", append([]string{"-f", "-xx", "-s", "1000000", "-o", trace, "-e", "trace=" + c12Trace, self}, append(childArgs, dt, string(callsJSON))...)...)
				out, err := cmd.CombinedOutput()
				if err != nil {
					lastErr = fmt.Sprintf("strace record run failed: %v %s", err, trunc(out, 300))
					continue
				}
				calls, sawB, sawE, _ = parseTrace(trace, dt)
				if sawB && sawE && len(calls) > 0 {
					lastErr = ""
					break
				}
				lastErr = fmt.Sprintf("trace has no syscalls between the markers (begin=%v end=%v calls=%d)", sawB, sawE, len(calls))
			}
			if lastErr != "" {
				// a pair that cannot be recorded (e.g. ptrace refused under load) is an inconclusive point, not a verdict
				c.Count("pairs_not_recorded(inconclusive points)", 1)
				c.SetAdd("record_failures", lastErr)
				recordFailures++
				return
			}
			var names []string
			for _, s := range calls {
				names = append(names, s.Name)
			}
			c.SetAdd("syscall_sequences_of_a_save", strings.Join(names, ","))
			c.Count("pairs", 1)
			if firstSave {
				c.Count("pairs_first_ever_save", 1)
			}
			if i < 1 {
				c.Sample(map[string]interface{}{"key": key, "history": cs.hist, "crashed_step": k, "save_syscalls": names, "first_save": firstSave})
			}
			verify := func(dir, what string) {
				got := c12Load(cs, dir)
				state := "neither"
				switch {
				case got.err == "" && refOld.err == "" && got.st.Equal(refOld.st) && got.ca.Equal(refOld.ca):
					state = "old"
				case got.err == "" && refNew.err == "" && got.st.Equal(refNew.st) && got.ca.Equal(refNew.ca):
					state = "new"
				case got.err != "" && firstSave && db.IsNotFound(errors.New(got.err)):
					state = "old" // no record yet
				case got.err == "" && firstSave && len(got.st.ExecPath) == 0 && len(got.st.Code) == 0 && len(got.ca.Frames) == 1 && len(got.ca.Frames[0]) == 0:
					state = "old" // the complete record of the not yet started session, which the engine itself saves when it finds none
					c.Count("recovered_initial_record_of_new_session", 1)
				}
				recSize := int64(-1)
				if fi, err := os.Stat(filepath.Join(dir, "@victim")); err == nil {
					recSize = fi.Size()
				}
				if state == "new" {
					got.out = c12Serve(cs, dir, callsAfter, next)
				} else {
					got.out = c12Serve(cs, dir, callsBefore, next)
				}
				if os.Getenv("VERIF_C12_DEBUG") != "" {
					fmt.Fprintf(os.Stderr, "C12DEBUG %s: %s err=%q st=%+v ca=%+v\n", what, state, got.err, got.st, got.ca)
				}
				c.EvalN(1, 1)
				c.Count("crash_states_checked", 1)
				c.Count("recovered_"+state, 1)
				csd := map[string]interface{}{"history": cs.hist, "crashed_step": k, "crash_point": what, "save_syscalls": names, "load_error": got.err}
				if state == "neither" {
					kind := "mixed-or-unknown-record"
					if got.err != "" {
						kind = "record-unreadable"
						if recSize == 0 {
							kind = "record-empty"
						} else if recSize > 0 {
							kind = "record-truncated"
						}
					}
					restart := ""
					if got.out == freshOut {
						restart = "; the engine silently starts a new session"
					}
					c.Violate("crash:"+kind+":"+crashClass(what), fmt.Sprintf("process death %s leaves a record that is neither the old nor the new snapshot (Load: %q, %d bytes)%s; the next request answers %s", what, got.err, recSize, restart, got.out), key, csd)
					return
				}
				want := refOld.out
				if state == "new" {
					want = refNew.out
				}
				if got.out != want {
					c.Violate("crash:continuation-differs:"+crashClass(what), fmt.Sprintf("process death %s: record equals the %s snapshot but the next request answers %s instead of %s", what, state, got.out, want), key, csd)
					return
				}
				if d := dirDigest(dir, "victim"); d != othersDigest {
					c.Violate("crash:other-sessions-changed:"+crashClass(what), "records of other sessions differ after the crash", key, csd)
				}
			}
			// crash before each recorded syscall
			for ci, s := range calls {
				di := filepath.Join(tmp, fmt.Sprintf("k%d", ci))
				copyDir(d0, di)
				tr := filepath.Join(tmp, fmt.Sprintf("trace%d.txt", ci))
				cmd := exec.Command("strace", append([]string{"-f", "-xx", "-s", "64", "-o", tr, "-e", "trace=" + c12Trace,
					"-e", fmt.Sprintf("inject=%s:signal=SIGKILL:when=%d", s.Name, s.Ordinal), self}, append(childArgs, di, string(callsJSON))...)...)
				cmd.Run()
				c.Count("kill_runs", 1)
				kcalls, kb, ke, _ := parseTrace(tr, di)
				// the kill run must show the recorded prefix and must not have reached the end marker
				okPrefix := kb && !ke && len(kcalls) >= ci
				for x := 0; okPrefix && x < ci && x < len(kcalls); x++ {
					if kcalls[x].Name != calls[x].Name {
						okPrefix = false
					}
				}
				if !okPrefix {
					c.Count("kill_runs_with_unexpected_trace(inconclusive point)", 1)
					continue
				}
				what := fmt.Sprintf("before syscall #%d %s(%s)", ci, s.Name, filepath.Base(s.Path))
				// verification serves a request: keep a pristine copy for torn writes first
				if s.Name == "write" && len(s.Payload) > 1 {
					nb := len(s.Payload)
					cuts := map[int]bool{1: true, nb / 2: true, nb - 1: true}
					for p := 4096; p < nb; p += 4096 {
						cuts[p] = true
					}
					for j := range cuts {
						if j <= 0 || j >= nb {
							continue
						}
						dj := filepath.Join(tmp, fmt.Sprintf("k%d-t%d", ci, j))
						copyDir(di, dj)
						rel, _ := filepath.Rel(dt, s.Path)
						target := filepath.Join(dj, rel)
						if _, err := os.Stat(target); err != nil {
							// the file was created by the killed child under a run-specific (temporary) name:
							// it is the one file of the crash directory that neither the prepared nor the completed directory has
							var fresh []string
							es, _ := os.ReadDir(dj)
							for _, e := range es {
								_, err0 := os.Stat(filepath.Join(d0, e.Name()))
								_, errT := os.Stat(filepath.Join(dt, e.Name()))
								if err0 != nil && errT != nil { // neither prepared nor left behind by a completed save
									fresh = append(fresh, e.Name())
								}
							}
							if len(fresh) != 1 {
								c.Count("torn_write_target_not_identified", 1)
								continue
							}
							target = filepath.Join(dj, fresh[0])
						}
						f, err := os.OpenFile(target, os.O_WRONLY|os.O_APPEND, 0600)
						if err != nil {
							continue
						}
						f.Write(s.Payload[:j])
						f.Close()
						c.Count("torn_write_states", 1)
						verify(dj, fmt.Sprintf("inside syscall #%d write(%s) after %d of %d bytes", ci, filepath.Base(s.Path), j, nb))
						os.RemoveAll(dj)
					}
				}
				if s.Name == "pwrite64" && len(s.Payload) > 1 {
					// death inside a positioned write: the first j bytes have replaced what was at the offset
					nb := len(s.Payload)
					step := 1
					if nb > 400 {
						step = nb / 200
					}
					for j := 1; j < nb; j += step {
						dj := filepath.Join(tmp, fmt.Sprintf("k%d-p%d", ci, j))
						copyDir(di, dj)
						rel, _ := filepath.Rel(dt, s.Path)
						f, err := os.OpenFile(filepath.Join(dj, rel), os.O_WRONLY, 0600)
						if err != nil {
							os.RemoveAll(dj)
							continue
						}
						f.WriteAt(s.Payload[:j], s.Offset)
						f.Close()
						c.Count("torn_positioned_write_states", 1)
						verify(dj, fmt.Sprintf("inside syscall #%d write(%s) at offset %d after %d of %d bytes", ci, filepath.Base(s.Path), s.Offset, j, nb))
						os.RemoveAll(dj)
					}
				}
				verify(di, what)
				os.RemoveAll(di)
			}
			// and the completed save
			verify(dt, "after the save completed")
		}()
	}
}

// otherFilesystemDir names a writable directory on a different device than os.TempDir(), or "" if there is none.
func otherFilesystemDir() string {
	var a, b syscall.Stat_t
	if syscall.Stat(os.TempDir(), &a) != nil {
		return ""
	}
	for _, d := range []string{"/dev/shm", "/run/shm", "/var/tmp"} {
		if syscall.Stat(d, &b) != nil || a.Dev == b.Dev {
			continue
		}
		t, err := os.MkdirTemp(d, "c12probe-")
		if err != nil {
			continue
		}
		os.Remove(t)
		return d
	}
	return ""
}

func crashClass(what string) string {
	switch {
	case strings.HasPrefix(what, "inside"):
		return "torn-write"
	case strings.Contains(what, " write("):
		return "before-write"
	case strings.Contains(what, " close("):
		return "before-close"
	case strings.Contains(what, " openat("):
		return "before-open"
	case strings.Contains(what, " rename"):
		return "before-rename"
	case strings.HasPrefix(what, "after"):
		return "after-save"
	}
	return "before-other"
}

var _ = bytes.Equal
