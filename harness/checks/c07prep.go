package checks

import (
	"bytes"
	"context"
	"fmt"

	"git.defalsify.org/vise.git/cache"
	"git.defalsify.org/vise.git/engine"
	"git.defalsify.org/vise.git/persist"
	"git.defalsify.org/vise.git/state"

	"verif/harness/app"
	"verif/harness/codec"
	"verif/harness/vk"
)

// runC07Prepared: sessions that do not start blank. The application prepares the state and cache objects it hands
// over (a value in the cache's base frame that pages map, a user flag set) - to a long-lived engine once, to the
// per-request engines on every request (through the engine, WithState/WithMemory, or through the persister,
// WithContent; plain and flushing persister). For a new session the prepared content is what the first request
// must run on; for an existing one the stored record wins. Every request's output, continue flag and error must
// equal the long-lived engine's.
func runC07Prepared(c *vk.Ctx) {
	ctx := context.Background()
	idx := 0
	for _, backend := range []string{"mem", "fs"} {
		for _, flush := range []bool{false, true} {
			for _, handover := range []string{"engine", "persister"} {
				for _, flag := range []bool{false, true} {
					for _, size := range []uint32{0, 80} {
						mine := c.Mine(idx)
						idx++
						key := fmt.Sprintf("prepared/%s/%s/%s/%s/%d", backend, boolWord(flush, "flush", "plain"), handover, boolWord(flag, "flag", "noflag"), size)
						if !mine || !c.Want(key) {
							continue
						}
						r := c.RNG(key)
						val := fmt.Sprintf("prepared-%d", r.Intn(1000))
						a := app.NewApp()
						a.FlagCount = 3
						a.AddNode(&app.Node{Name: "root", Template: "hello {{.pre}}", Code: []codec.Ins{
							{Op: codec.MAP, S1: "pre"}, {Op: codec.CATCH, S1: "flagged", N: 9, Mode: true}, {Op: codec.MOUT, S1: "go", S2: "1"}, {Op: codec.HALT},
							{Op: codec.INCMP, S1: "two", S2: "1"}}})
						a.AddNode(&app.Node{Name: "flagged", Template: "flag page {{.pre}}", Code: []codec.Ins{
							{Op: codec.MAP, S1: "pre"}, {Op: codec.MOUT, S1: "go", S2: "1"}, {Op: codec.HALT}, {Op: codec.INCMP, S1: "two", S2: "1"}}})
						a.AddNode(&app.Node{Name: "two", Template: "two {{.pre}} {{.v}}", Code: []codec.Ins{
							{Op: codec.LOAD, S1: "v", N: 20}, {Op: codec.MAP, S1: "v"}, {Op: codec.MAP, S1: "pre"}, {Op: codec.MOUT, S1: "back", S2: "0"}, {Op: codec.HALT}, {Op: codec.INCMP, S1: "_", S2: "0"}}})
						a.AddNode(&app.Node{Name: "_catch", Template: "catch page", Code: []codec.Ins{{Op: codec.HALT}, {Op: codec.INCMP, S1: "_", S2: "*"}}})
						a.Funcs["v"] = &app.FuncSpec{Sym: "v", Kind: "fixed", Fixed: "loaded"}
						a.Finalize()
						cfg := app.Config{OutputSize: size, FlagCount: 3, SessionId: "prep", Root: "root"}
						hist := []string{"", "1", "0", "x", "y", "1"}
						prepare := func() (*state.State, *cache.Cache) {
							st := state.NewState(3)
							if flag {
								st.SetFlag(9)
							}
							ca := cache.NewCache()
							ca.Add("pre", val, 0)
							return st, ca
						}
						type step struct {
							Out, Err string
							Cont     bool
						}
						serve := func(en *engine.DefaultEngine, in string, finish bool) (s step) {
							pv, _ := vk.Guard(func() {
								cont, err := en.Exec(ctx, []byte(in))
								s.Cont = cont
								if err != nil {
									s.Err = "exec: " + err.Error()
								} else {
									var buf bytes.Buffer
									if _, err := en.Flush(ctx, &buf); err != nil {
										s.Err = "flush: " + err.Error()
									}
									s.Out = buf.String()
								}
								if finish {
									if err := en.Finish(ctx); err != nil {
										s.Err += " finish: " + err.Error()
									}
								}
							})
							if pv != nil {
								s.Err = fmt.Sprintf("panic: %v", pv)
							}
							return s
						}
						c.Begin(key)
						// reference: one engine for the whole session
						var want []step
						{
							st, ca := prepare()
							en := engine.NewEngine(cfg.Engine(), app.NewRecRes(a)).WithState(st).WithMemory(ca)
							for _, in := range hist {
								want = append(want, serve(en, in, false))
							}
							en.Finish(ctx)
						}
						b, err := app.NewBackend(backend)
						if err != nil {
							c.Inconclusive(err.Error())
							return
						}
						var got []step
						for k, in := range hist {
							store, err := b.Handle()
							if err != nil {
								c.Inconclusive(err.Error())
								break
							}
							pe := persist.NewPersister(store)
							if flush {
								pe = pe.WithFlush()
							}
							st, ca := prepare()
							en := engine.NewEngine(cfg.Engine(), app.NewRecRes(a))
							if handover == "persister" {
								en = en.WithPersister(pe.WithContent(st, ca))
							} else {
								en = en.WithState(st).WithMemory(ca).WithPersister(pe)
							}
							s := serve(en, in, true)
							got = append(got, s)
							if backend != "mem" {
								store.Close(ctx)
							}
							c.EvalN(1, 1)
							c.Count("prepared_session_requests", 1)
							if s != want[k] {
								what := "output"
								if s.Err != want[k].Err {
									what = "error"
								}
								which := "later-request"
								if k == 0 {
									which = "first-request"
								}
								c.Violate("prepared:"+boolWord(flush, "flush", "plain")+":"+which+":"+what,
									fmt.Sprintf("session started from a prepared cache (pre=%q) and state (flag 9 %v), handed over through the %s, %s persister on %s: request %d (%q) answers %q err %q cont %v; the long-lived engine over the same prepared objects answers %q err %q cont %v",
										val, flag, handover, boolWord(flush, "flushing", "plain"), backend, k, in, s.Out, s.Err, s.Cont, want[k].Out, want[k].Err, want[k].Cont),
									key, map[string]interface{}{"history": hist[:k+1], "backend": backend, "flush": flush, "handover": handover, "flag_set": flag, "output_size": size, "uninterrupted": want[:k+1], "per_request": got})
								break
							}
						}
						b.Cleanup()
					}
				}
			}
		}
	}
}
