package checks

import (
	"fmt"

	"verif/harness/app"
	"verif/harness/codec"
	"verif/harness/vk"
)

// ---------------------------------------------------------------------------------------------
// C06 — signal flags steer control flow; reserved ones are tamper-proof

// flagApp: the flag f is toggled by every visit of root (RELOAD), then tested by CATCH or CROAK in the given mode.
func flagApp(flagCount uint32, f uint32, croak bool, mode bool, startSet bool) *app.App {
	a := app.NewApp()
	a.FlagCount = flagCount
	// a reserved index in front of the flag under test: it must be ignored, the flag must still be written
	set := [][]uint32{{3, f, 0}, {1}}
	reset := [][]uint32{{5}, {2, f}}
	if !startSet {
		set, reset = [][]uint32{{4}, {0, f}}, [][]uint32{{1, f, 2}, {}}
	}
	a.Funcs["tog"] = &app.FuncSpec{Sym: "tog", Kind: "id", FlagSet: set, FlagReset: reset}
	code := []codec.Ins{{Op: codec.LOAD, S1: "tog", N: 20}, {Op: codec.RELOAD, S1: "tog"}}
	if croak {
		code = append(code, codec.Ins{Op: codec.CROAK, N: f, Mode: mode})
	} else {
		code = append(code, codec.Ins{Op: codec.CATCH, S1: "n1", N: f, Mode: mode})
	}
	code = append(code, codec.Ins{Op: codec.MOUT, S1: "again", S2: "1"}, codec.Ins{Op: codec.HALT},
		codec.Ins{Op: codec.INCMP, S1: ".", S2: "1"}, codec.Ins{Op: codec.INCMP, S1: "n2", S2: "2"})
	a.AddNode(&app.Node{Name: "root", Code: code, Template: "root {{.tog}}"})
	a.AddNode(&app.Node{Name: "n1", Template: "caught", Code: []codec.Ins{{Op: codec.MOUT, S1: "back", S2: "0"}, {Op: codec.HALT}, {Op: codec.INCMP, S1: "_", S2: "0"}}})
	a.AddNode(&app.Node{Name: "n2", Template: "two", Code: []codec.Ins{{Op: codec.HALT}, {Op: codec.INCMP, S1: "_", S2: "*"}}})
	a.AddNode(&app.Node{Name: "_catch", Template: "catch page", Code: []codec.Ins{{Op: codec.HALT}, {Op: codec.INCMP, S1: "_", S2: "*"}}})
	a.Finalize()
	return a
}

func flagIndices(count uint32, all bool) []uint32 {
	var l []uint32
	if count == 0 {
		return l
	}
	if all || count <= 64 {
		for i := uint32(0); i < count; i++ {
			l = append(l, 8+i)
		}
		return l
	}
	for _, i := range []uint32{0, 1, 7, 8, 9, 63, 64, 255, 256, 1000, count - 2, count - 1} {
		if i < count {
			l = append(l, 8+i)
		}
	}
	return l
}

var c06Kinds = kinds("position", "flags", "terminate-flag", "cont", "calls", "unexpected-output", "code-events")

func C06() *vk.Check {
	return &vk.Check{ID: "C06", Level: "exploration", MinEvaluations: 300, Shards: func(string) int { return 16 }, Run: runC06,
		Rule: "three monitors. (a) reference model, enumerated: for flag counts {1,7,8,9,64,1000,2032} every in-range client flag index (quick: all indices for counts <= 64, boundary indices above; thorough: all) is used as CATCH and as CROAK operand in both match modes, the flag being toggled by an external function on every visit; position, client flags, TERMINATE and continue flag must follow the model. (b) two-run tamper oracle, model-free: the same generated application and history are run with external functions returning hostile FlagSet/FlagReset lists that include every reserved index 0..5 (duplicates, set+reset of the same flag) and with those indices filtered out by the harness; outputs, continue flags, positions, call logs and the complete State.Flags bytes must be identical. " +
			"(c) TERMINATE block: generated applications with functions that set TERMINATE and with dead ends; every later request must produce no output, no callback and no position change until the harness clears the flag in the stored state, then the session must run on. distinct = hash(case); non-trivial = the flag under test changed the route at least once / a reserved index was requested / a blocked request was observed.",
		Assumptions: []string{modelAssumption, "flag indices outside the configured count are outside the property (they panic by design)"}}
}

func runC06(c *vk.Ctx) {
	idx := 0
	// (a) enumerated CATCH/CROAK operands
	counts := []uint32{1, 7, 8, 9, 64, 1000, 2032}
	for _, cnt := range counts {
		for _, f := range flagIndices(cnt, !c.Quick()) {
			mine := c.Mine(idx)
			idx++
			if !mine {
				continue
			}
			for v := 0; v < 8; v++ {
				croak, mode, startSet := v&1 == 1, v&2 == 2, v&4 == 4
				key := fmt.Sprintf("flag/%d/%d/%d", cnt, f, v)
				if !c.Want(key) {
					continue
				}
				a := flagApp(cnt, f, croak, mode, startSet)
				cfg := app.Config{FlagCount: cnt, SessionId: "s", Root: "root", OutputSize: 0}
				hist := []string{"", "1", "1", "0", "1", "2", "x", "1", clearToken, "1", "1"}
				c.Begin(key)
				for _, drv := range []string{"long", "mem"} {
					d, st := monitorSession(c, a, cfg, hist, sessOpts{Driver: drv, PastEnd: drv != "long"})
					routed := false
					for _, t := range st.Transcript {
						if len(t) > 0 && (contains(t, "caught") || contains(t, "cont=false")) {
							routed = true
						}
					}
					c.Eval(vk.Hash64(key, drv), routed)
					c.Count("enumerated_flag_cases", 1)
					c.Count("requests", int64(st.Requests))
					if v == 0 && f == 8 && cnt == 9 && drv == "mem" {
						c.Sample(map[string]interface{}{"key": key, "app": a.Describe(), "history": printableHist(hist), "transcript": st.Transcript})
					}
					if d != nil && d.Kind != "harness" && (c06Kinds[d.Kind] || d.Kind == "exec-error") {
						sig := "enum:" + d.Kind
						if d.Sub != "" {
							sig += ":" + d.Sub
						}
						op := "CATCH"
						if croak {
							op = "CROAK"
						}
						c.Violate(sig+":"+op, fmt.Sprintf("flag count %d, flag %d, %s mode %v: step %d (%s): %s", cnt, f, op, mode, d.Step, drv, d.Msg), key,
							map[string]interface{}{"app": a.Describe(), "config": cfg, "history": printableHist(hist), "transcript": st.Transcript})
					}
				}
			}
		}
	}
	// (b) two-run tamper oracle
	n := c.N(2400, 60000)
	for i := 0; i < n; i++ {
		mine := c.Mine(idx)
		idx++
		key := fmt.Sprintf("tamper/%d", i)
		if !mine || !c.Want(key) {
			continue
		}
		r := c.RNG(key)
		p := c07Profile(r)
		p.Hostile = true
		p.Terminate = r.Chance(1, 4)
		p.First = r.Chance(1, 3)
		a := app.Generate(r, p)
		cfg := genConfig(r, a, "s")
		cfg.First = a.Funcs["_first"] != nil
		hist := a.History(r, r.Range(3, 15))
		c.Begin(key)
		for _, drv := range []string{"long", "mem"} {
			run := func(filter bool) []*app.Obs {
				var d app.Driver
				var b *app.Backend
				if drv == "long" {
					ll := app.NewLongLived(a, cfg)
					ll.Res.FilterReserved = filter
					d = ll
				} else {
					b, _ = app.NewBackend(drv)
					pr := app.NewPerRequest(a, cfg, b)
					pr.Res.FilterReserved = filter
					d = pr
					defer b.Cleanup()
				}
				defer d.Close()
				var obs []*app.Obs
				for _, in := range hist {
					o := d.Request([]byte(in))
					obs = append(obs, o)
					if !o.Cont || o.ExecErr != "" || o.Panic != "" {
						break
					}
				}
				return obs
			}
			hostile, clean := run(false), run(true)
			reserved := 0
			for _, f := range a.Funcs {
				for _, l := range append(append([][]uint32{}, f.FlagSet...), f.FlagReset...) {
					for _, x := range l {
						if x < 6 {
							reserved++
						}
					}
				}
			}
			c.Eval(vk.Hash64(key, drv), reserved > 0)
			c.Count("tamper_histories", 1)
			for step := 0; step < len(hostile) && step < len(clean); step++ {
				h, cl := hostile[step], clean[step]
				c.Count("tamper_requests_compared", 1)
				what := ""
				switch {
				case h.Panic != "" || cl.Panic != "":
					if (h.Panic != "") != (cl.Panic != "") {
						what = "panic"
					}
				case h.Out != cl.Out:
					what = "output"
				case h.Cont != cl.Cont:
					what = "cont"
				case (h.ExecErr != "") != (cl.ExecErr != ""):
					what = "exec-error"
				case h.State != nil && cl.State != nil && fmt.Sprint(h.State.ExecPath, h.State.SizeIdx) != fmt.Sprint(cl.State.ExecPath, cl.State.SizeIdx):
					what = "position"
				case h.State != nil && cl.State != nil && string(h.State.Flags) != string(cl.State.Flags):
					what = fmt.Sprintf("flags-byte0:%08b-vs-%08b", h.State.Flags[0], cl.State.Flags[0])
					if h.State.Flags[0] == cl.State.Flags[0] {
						what = "client-flags"
					}
				case fmt.Sprint(callList(h)) != fmt.Sprint(callList(cl)):
					what = "calls"
				}
				if what != "" {
					c.Violate("tamper:"+what, fmt.Sprintf("step %d (%s): with reserved indices requested: %s flags=%x | without: %s flags=%x", step, drv, h.Brief(), flagsOf(h), cl.Brief(), flagsOf(cl)), key,
						map[string]interface{}{"driver": drv, "app": a.Describe(), "config": cfg, "history": printableHist(hist[:step+1])})
					break
				}
				if h.Panic != "" {
					break
				}
			}
		}
	}
	// (c) TERMINATE block, model-based on generated applications
	mc := &modelCheck{ID: "C06", Kinds: c06Kinds, Drivers: []string{"mem", "fs", "long"}, PastEnd: true, N: [2]int{2000, 50000}, TerminateAfterFailure: true,
		Profile: func(r *vk.RNG) app.Profile {
			p := specProfile(r)
			p.Terminate = true
			p.Croak = r.Chance(1, 2)
			p.Catch = true
			p.Lang = false
			p.TailCall = true
			p.CatchLoads = true
			p.CatchVariants = true
			p.LoadErrors = true
			return p
		},
		Hist:       func(r *vk.RNG, a *app.App) []string { return histWithClears(r, a, 6, 24) },
		NonTrivial: func(s *sessStats) bool { return s.Blocked >= 1 }}
	mc.run(c)
}

func contains(s, sub string) bool {
	return len(sub) <= len(s) && (func() bool {
		for i := 0; i+len(sub) <= len(s); i++ {
			if s[i:i+len(sub)] == sub {
				return true
			}
		}
		return false
	})()
}

func callList(o *app.Obs) []string {
	var l []string
	for _, e := range o.Events {
		if e.Kind == "call" {
			l = append(l, e.Sym+"("+e.Input+")")
		}
	}
	return l
}

func flagsOf(o *app.Obs) []byte {
	if o.State == nil {
		return nil
	}
	return o.State.Flags
}
