package checks

import (
	"bytes"
	"context"
	"encoding/base64"
	"fmt"
	"os/signal"
	"sort"
	"strings"
	"syscall"

	"git.defalsify.org/vise.git/db"
	"git.defalsify.org/vise.git/lang"
	"git.defalsify.org/vise.git/resource"

	"verif/harness/app"
	"verif/harness/vk"
)

// ---------------------------------------------------------------------------------------------
// C10 — every backend behaves as the same keyed map (lock-step reference map)

type kaddr struct {
	Typ  uint8
	Sid  string
	Key  string
	Lang string
}

func (a kaddr) String() string {
	return fmt.Sprintf("(type %d, session %q, key %q, lang %q)", a.Typ, a.Sid, a.Key, a.Lang)
}

const langTypes = db.DATATYPE_MENU | db.DATATYPE_TEMPLATE | db.DATATYPE_STATICLOAD
const lockable = db.DATATYPE_BIN | db.DATATYPE_MENU | db.DATATYPE_TEMPLATE | db.DATATYPE_STATICLOAD

type refStore struct {
	m    map[kaddr][]byte
	pfx  uint8
	sid  string
	lang string // sticky handle language
	lock uint8
	seal bool
}

func newRefStore() *refStore { return &refStore{m: map[kaddr][]byte{}, lock: lockable} }

func (r *refStore) addr(key, ctxLang string) (kaddr, string) {
	a := kaddr{Typ: r.pfx, Key: key}
	if r.pfx > db.DATATYPE_STATICLOAD {
		a.Sid = r.sid
	}
	l := ""
	if r.pfx&langTypes != 0 {
		l = r.lang
		if l == "" {
			l = ctxLang
		}
	}
	return a, l
}

type c10op struct {
	Op   string `json:"op"`
	Typ  uint8  `json:"typ,omitempty"`
	Sid  string `json:"sid,omitempty"`
	Lang string `json:"lang,omitempty"`    // SetLanguage argument
	Ctx  string `json:"ctxlang,omitempty"` // language on the context of this call
	Key  string `json:"key,omitempty"`
	Val  []byte `json:"val,omitempty"`
	Lock bool   `json:"lock,omitempty"`
}

func (o c10op) String() string {
	switch o.Op {
	case "put":
		return fmt.Sprintf("Put(%q,%d bytes) ctxlang=%q", o.Key, len(o.Val), o.Ctx)
	case "get", "dump", "res-template", "res-menu", "res-code", "res-func":
		return fmt.Sprintf("%s(%q) ctxlang=%q", o.Op, o.Key, o.Ctx)
	case "prefix":
		return fmt.Sprintf("SetPrefix(%d)", o.Typ)
	case "session":
		return fmt.Sprintf("SetSession(%q)", o.Sid)
	case "language":
		return fmt.Sprintf("SetLanguage(%q)", o.Lang)
	case "lock":
		return fmt.Sprintf("SetLock(%d,%v)", o.Typ, o.Lock)
	}
	return o.Op
}

var c10Langs = map[string]lang.Language{}

func langOf(code string) *lang.Language {
	if code == "" {
		return nil
	}
	if l, ok := c10Langs[code]; ok {
		return &l
	}
	l, err := lang.LanguageFromCode(code)
	if err != nil {
		panic(err)
	}
	c10Langs[code] = l
	return &l
}

var c10Keys = []string{"foo", "bar", "Pab", "P", "x1", "ab_c", "k", "tmpl", "Psk", "fo", "foobar", "at", "bin", "foo_menu", "txt"}
var c10Sids = []string{"", "s", "Ps", "alice", "8x", "P", "s2"}
var c10Types = []uint8{db.DATATYPE_BIN, db.DATATYPE_MENU, db.DATATYPE_TEMPLATE, db.DATATYPE_STATICLOAD, db.DATATYPE_STATE, db.DATATYPE_USERDATA}

// binKeys draws binary keys (the purpose of the fs binary-key mode). Keys whose standard base64 form contains
// '/' cannot be file names and are left out; '+' (sextet 62) is kept on purpose.
func binKeys(r *vk.RNG) []string {
	var l []string
	for len(l) < 10 {
		b := make([]byte, r.Range(1, 6))
		for j := range b {
			b[j] = vk.Pick(r, []byte{0x00, 0x01, 0x0f, 0x80, 0xf8, 0xfb, 0xfe, 0xff, 'a', 'k', 0x3e, 0x7e, 0xbe})
		}
		if strings.Contains(base64.StdEncoding.EncodeToString(b), "/") {
			continue
		}
		l = append(l, string(b))
	}
	// shared prefixes make listings interesting
	for _, k := range []string{l[0] + "x", l[0] + l[1], l[2][:1], l[3] + "\xfb"} {
		if !strings.Contains(base64.StdEncoding.EncodeToString([]byte(k)), "/") {
			l = append(l, k)
		}
	}
	return l
}

func genC10Seq(r *vk.RNG, binary bool) []c10op {
	n := r.Range(10, 80)
	ops := []c10op{{Op: "prefix", Typ: vk.Pick(r, c10Types)}}
	nval := 0
	keys := c10Keys[:r.Range(4, len(c10Keys))]
	if binary {
		keys = binKeys(r)
	}
	sids := c10Sids[:r.Range(2, len(c10Sids))]
	langs := []string{"", "", "nor", "swa", "eng"}
	for len(ops) < n {
		ctxl := ""
		if r.Chance(1, 4) {
			ctxl = vk.Pick(r, langs)
		}
		switch x := r.Intn(100); {
		case x < 30:
			nval++
			v := []byte(fmt.Sprintf("v%d", nval))
			switch r.Intn(8) {
			case 0:
				v = []byte{}
			case 1:
				v = append([]byte{0x00, 0xff, byte(nval), '\n'}, v...)
			case 2:
				// bytes a "helpful" reader or writer would strip, convert or interpret: byte order marks, compression
				// magic, line ends and blanks at either end, a trailing NUL
				pre := vk.Pick(r, []string{"\xef\xbb\xbf", "\xff\xfe", "\xfe\xff", "\x1f\x8b\x08", " ", "\t", "\n", "\r\n", ""})
				post := vk.Pick(r, []string{"\n", "\r\n", " ", "\x00", "\n\n", "\x1a", ""})
				v = []byte(pre + string(v) + post)
			}
			key := vk.Pick(r, keys)
			if r.Chance(1, 3) {
				// the same bytes as the last write to this key, whatever language or session that went to (a translation
				// that reads like the default text, a value put back)
				for k := len(ops) - 1; k >= 0; k-- {
					if ops[k].Op == "put" && ops[k].Key == key && len(ops[k].Val) > 0 {
						v = append([]byte{}, ops[k].Val...)
						break
					}
				}
			}
			ops = append(ops, c10op{Op: "put", Key: key, Val: v, Ctx: ctxl})
		case x < 58:
			ops = append(ops, c10op{Op: "get", Key: vk.Pick(r, keys), Ctx: ctxl})
		case x < 68:
			ops = append(ops, c10op{Op: "prefix", Typ: vk.Pick(r, c10Types)})
		case x < 76:
			ops = append(ops, c10op{Op: "session", Sid: vk.Pick(r, sids)})
		case x < 82:
			ops = append(ops, c10op{Op: "language", Lang: vk.Pick(r, langs)})
		case x < 89:
			t := vk.Pick(r, c10Types[:4])
			if r.Chance(1, 3) {
				// several data types in one call (examples/db unlocks and relocks BIN|MENU|TEMPLATE in one go), whatever
				// the lock state of each of them is
				t |= vk.Pick(r, c10Types[:4])
				if r.Bool() {
					t |= vk.Pick(r, c10Types[:4])
				}
			}
			if r.Chance(1, 12) {
				t = 0
			}
			ops = append(ops, c10op{Op: "lock", Typ: t, Lock: r.Bool()})
		case x < 94:
			p := vk.Pick(r, keys)
			if r.Chance(1, 2) {
				p = p[:r.Intn(len(p)+1)]
			}
			ops = append(ops, c10op{Op: "dump", Key: p})
		default:
			if binary {
				continue // the resource getters derive further keys (sym_menu, sym.txt): symbols only
			}
			ops = append(ops, c10op{Op: vk.Pick(r, []string{"res-template", "res-menu", "res-code", "res-func"}), Key: vk.Pick(r, keys), Ctx: ctxl})
		}
	}
	return ops
}

func ctxFor(l string) context.Context {
	ctx := context.Background()
	if l != "" {
		ctx = context.WithValue(ctx, "Language", *langOf(l))
	}
	return ctx
}

// fsName reconstructs the file name the fs backend uses for an address (harness-side, for classification only).
func fsName(a kaddr, l string, binary bool) string {
	k := a.Key
	if binary {
		k = base64.StdEncoding.EncodeToString([]byte(k))
	}
	s := string([]byte{a.Typ + 0x30})
	if a.Typ > db.DATATYPE_STATICLOAD && a.Sid != "" {
		s += a.Sid + "."
	}
	s += k
	if l != "" {
		s += "_" + l
	}
	return s
}

func fsAltName(a kaddr, l string, binary bool) string {
	n := fsName(a, l, binary)[1:]
	if a.Typ == db.DATATYPE_BIN {
		n += ".bin"
	}
	return n
}

// explainWrong names the mechanism by which a Get returned data of another address.
func explainWrong(ref *refStore, want kaddr, wantLang string, got []byte, backend string) string {
	relOf := func(a kaddr) string {
		switch {
		case a.Typ != want.Typ:
			return "other-type"
		case a.Sid != want.Sid:
			return "other-session"
		case a.Key == want.Key:
			return "other-language"
		}
		return "other-key"
	}
	if backend == "fs" || backend == "fsbin" {
		bin := backend == "fsbin"
		for a, v := range ref.m {
			if !bytes.Equal(v, got) {
				continue
			}
			for _, l := range []string{wantLang, ""} {
				if fsName(a, a.Lang, bin) == fsAltName(want, l, bin) {
					return relOf(a) + ":legacy-unprefixed-file-name-fallback"
				}
			}
		}
	}
	for a, v := range ref.m {
		if bytes.Equal(v, got) && len(got) > 0 {
			return relOf(a)
		}
	}
	return "unknown-value"
}

type c10backend struct {
	name  string
	b     *app.Backend
	store db.Db
	rs    *resource.DbResource
}

func runC10Seq(c *vk.Ctx, ops []c10op, key string, backends []string) {
	abandonedDumps := 0
	defer func() { c.Count("listings_abandoned_before_a_compared_listing", int64(abandonedDumps)) }()
	ref := newRefStore()
	var bks []*c10backend
	for _, name := range backends {
		b, err := app.NewBackend(name)
		if err != nil {
			c.Inconclusive(err.Error())
			return
		}
		defer b.Cleanup()
		s, err := b.Handle()
		if err != nil {
			c.Inconclusive(err.Error())
			return
		}
		bks = append(bks, &c10backend{name: name, b: b, store: s, rs: resource.NewDbResource(s).With(db.DATATYPE_STATICLOAD)})
	}
	report := func(bk *c10backend, i int, sig, msg string) {
		c.Violate(bk.name+":"+sig, fmt.Sprintf("step %d %s on %s: %s", i, ops[i], bk.name, msg), key, map[string]interface{}{"backend": bk.name, "ops": c10Strings(ops[:i+1])})
	}
	dead := map[string]bool{}
	for i, op := range ops {
		ctx := ctxFor(op.Ctx)
		// model
		var wantVal []byte
		wantFound, wantRefuse, wantErr := false, false, false
		var wantAddr kaddr
		var wantLang string
		var wantDump map[string][]byte
		safe := ref.lock&lockable == lockable
		switch op.Op {
		case "prefix":
			ref.pfx = op.Typ
		case "session":
			ref.sid = op.Sid
		case "language":
			ref.lang = op.Lang
		case "lock":
			if ref.seal {
				wantErr = true
			} else if op.Typ == 0 {
				ref.lock |= lockable
				ref.seal = true
			} else if op.Lock {
				ref.lock |= op.Typ
			} else {
				ref.lock &^= op.Typ
			}
		case "put":
			if ref.pfx&ref.lock != 0 {
				wantRefuse = true
			} else {
				a, l := ref.addr(op.Key, op.Ctx)
				a.Lang = l
				ref.m[a] = op.Val
			}
		case "get":
			wantAddr, wantLang = ref.addr(op.Key, op.Ctx)
			if wantLang != "" {
				a := wantAddr
				a.Lang = wantLang
				if v, ok := ref.m[a]; ok {
					wantVal, wantFound = v, true
				}
			}
			if !wantFound {
				if v, ok := ref.m[wantAddr]; ok {
					wantVal, wantFound = v, true
				}
			}
		case "dump":
			wantDump = map[string][]byte{}
			for a, v := range ref.m {
				sid := ""
				if ref.pfx > db.DATATYPE_STATICLOAD {
					sid = ref.sid
				}
				if a.Typ == ref.pfx && a.Sid == sid && a.Lang == "" && strings.HasPrefix(a.Key, op.Key) {
					wantDump[a.Key] = v
				}
			}
		case "res-template", "res-menu", "res-code", "res-func":
			// the getters select their data type on the store before they look at its locks
			switch op.Op {
			case "res-template":
				ref.pfx = db.DATATYPE_TEMPLATE
			case "res-menu":
				ref.pfx = db.DATATYPE_MENU
			case "res-code":
				ref.pfx = db.DATATYPE_BIN
			case "res-func":
				ref.pfx = db.DATATYPE_STATICLOAD
			}
			if safe {
				lookup := func(k string) ([]byte, bool) {
					a, l := ref.addr(k, op.Ctx)
					if l != "" {
						al := a
						al.Lang = l
						if v, ok := ref.m[al]; ok {
							return v, true
						}
					}
					v, ok := ref.m[a]
					return v, ok
				}
				switch op.Op {
				case "res-menu":
					wantVal, wantFound = lookup(op.Key + "_menu")
					if !wantFound {
						wantVal, wantFound = []byte(op.Key), true
					}
				case "res-func":
					wantVal, wantFound = lookup(op.Key)
					if !wantFound {
						wantVal, wantFound = lookup(op.Key + ".txt")
					}
				default:
					wantVal, wantFound = lookup(op.Key)
				}
			}
		}
		// backends
		for _, bk := range bks {
			if dead[bk.name] {
				continue
			}
			c.Count("store_operations", 1)
			var err error
			var got []byte
			var gotDump map[string][]byte
			dumpDup := ""
			pv, stack := vk.Guard(func() {
				switch op.Op {
				case "prefix":
					bk.store.SetPrefix(op.Typ)
				case "session":
					bk.store.SetSession(op.Sid)
				case "language":
					bk.store.SetLanguage(langOf(op.Lang))
				case "lock":
					err = bk.store.SetLock(op.Typ, op.Lock)
				case "put":
					// the store gets buffers of its own, and the caller goes on to use them for something else
					kb, vb := []byte(op.Key), append([]byte{}, op.Val...)
					err = bk.store.Put(ctx, kb, vb)
					scribble(kb)
					scribble(vb)
				case "get":
					kb := []byte(op.Key)
					got, err = bk.store.Get(ctx, kb)
					scribble(kb)
					if got != nil {
						// ... and does the same with what a read returned
						mine := append([]byte{}, got...)
						scribble(got)
						got = mine
					}
				case "dump":
					if bk.name != "fs" && bk.name != "fsbin" {
						return
					}
					var dmp *db.Dumper
					dmp, err = bk.store.Dump(ctx, []byte(op.Key))
					if err != nil {
						return
					}
					// before the listing that is compared: a listing on the same handle that is abandoned after a few
					// entries (a caller that only looks whether anything is there), closed or not
					if ab := len(op.Key) + i; ab%3 != 0 {
						if pre, perr := bk.store.Dump(ctx, []byte(op.Key)); perr == nil {
							for n := 0; n < ab%3-1; n++ {
								pre.Next(ctx)
							}
							if ab%2 == 0 {
								pre.Close()
							}
							abandonedDumps++
						}
						dmp, err = bk.store.Dump(ctx, []byte(op.Key))
						if err != nil {
							return
						}
					}
					gotDump = map[string][]byte{}
					for n := 0; n < 10000; n++ {
						k, v := dmp.Next(ctx)
						if k == nil {
							break
						}
						if _, dup := gotDump[string(k)]; dup {
							dumpDup = string(k)
						}
						gotDump[string(k)] = v
					}
					dmp.Close()
				case "res-template":
					var s string
					s, err = bk.rs.GetTemplate(ctx, op.Key)
					got = []byte(s)
				case "res-menu":
					var s string
					s, err = bk.rs.GetMenu(ctx, op.Key)
					got = []byte(s)
				case "res-code":
					got, err = bk.rs.GetCode(ctx, op.Key)
				case "res-func":
					var fn resource.EntryFunc
					fn, err = bk.rs.FuncFor(ctx, op.Key)
					if err == nil && fn != nil {
						var r resource.Result
						r, err = fn(ctx, op.Key, nil)
						got = []byte(r.Content)
					}
				}
			})
			isRes := strings.HasPrefix(op.Op, "res-")
			if pv != nil {
				if isRes && !safe && strings.Contains(fmt.Sprint(pv), "unsafe") {
					c.Count("resource_refused_unlocked_store", 1)
					continue
				}
				report(bk, i, vk.PanicSig(pv, stack), fmt.Sprintf("panics: %v", pv))
				dead[bk.name] = true
				continue
			}
			switch op.Op {
			case "lock":
				if wantErr != (err != nil) {
					report(bk, i, "lock:seal", fmt.Sprintf("error=%v, model error=%v", err, wantErr))
					dead[bk.name] = true
				}
			case "put":
				if wantRefuse && err == nil {
					report(bk, i, "put:locked-write-accepted", "the data type is locked but Put succeeded")
					dead[bk.name] = true
				} else if !wantRefuse && err != nil {
					report(bk, i, "put:spurious-error", err.Error())
					dead[bk.name] = true
				}
			case "get", "res-template", "res-menu", "res-code", "res-func":
				if isRes && !safe {
					report(bk, i, "resource:served-unlocked-store", "the store is not safe but the resource answered")
					dead[bk.name] = true
					break
				}
				if !wantFound {
					if err == nil {
						a, l := wantAddr, wantLang
						if isRes {
							a, l = ref.addr(op.Key, op.Ctx)
						}
						report(bk, i, op.Op+":never-written-returns:"+explainWrong(ref, a, l, got, bk.name), fmt.Sprintf("%v was never written but %q was returned", a, trunc(got, 40)))
						dead[bk.name] = true
					} else if !db.IsNotFound(err) {
						report(bk, i, op.Op+":not-found-not-recognisable", "error is not recognised by db.IsNotFound: "+err.Error())
						dead[bk.name] = true
					}
				} else if err != nil {
					report(bk, i, op.Op+":written-key-not-returned", fmt.Sprintf("want %q, got error %v", trunc(wantVal, 40), err))
					dead[bk.name] = true
				} else if !bytes.Equal(got, wantVal) {
					a, l := wantAddr, wantLang
					if isRes {
						a, l = ref.addr(op.Key, op.Ctx)
					}
					report(bk, i, op.Op+":wrong-value:"+explainWrong(ref, a, l, got, bk.name), fmt.Sprintf("want %q got %q", trunc(wantVal, 40), trunc(got, 40)))
					dead[bk.name] = true
				}
			case "dump":
				if bk.name != "fs" && bk.name != "fsbin" {
					break
				}
				if ref.pfx&langTypes != 0 || ref.pfx == 0 {
					break // listing of language-scoped types mixes translations in: outside the stated contract
				}
				c.Count("listings_compared", 1)
				if len(wantDump) == 0 {
					if err == nil && len(gotDump) > 0 {
						mech := ""
						if ref.pfx > db.DATATYPE_STATICLOAD && ref.sid == "" {
							all := true
							for k := range gotDump {
								if !strings.Contains(k, ".") {
									all = false
								}
							}
							if all {
								mech = ":empty-session-lists-other-sessions-as-sid.key"
							}
						}
						report(bk, i, "dump:extra-entries"+mech, fmt.Sprintf("nothing stored under the prefix, listing returned %v", sortedKeysB(gotDump)))
						dead[bk.name] = true
					}
					break
				}
				if err != nil {
					report(bk, i, "dump:error-although-entries-exist", fmt.Sprintf("%d entries expected, Dump failed: %v", len(wantDump), err))
					dead[bk.name] = true
					break
				}
				if dumpDup != "" {
					report(bk, i, "dump:entry-repeated", "key "+dumpDup+" listed twice")
					dead[bk.name] = true
					break
				}
				var missing, extra, wrong []string
				for k, v := range wantDump {
					gv, ok := gotDump[k]
					if !ok {
						missing = append(missing, k)
					} else if !bytes.Equal(gv, v) {
						wrong = append(wrong, k)
					}
				}
				for k := range gotDump {
					if _, ok := wantDump[k]; !ok {
						extra = append(extra, k)
					}
				}
				sort.Strings(missing)
				sort.Strings(extra)
				switch {
				case len(extra) > 0:
					mech := ""
					if ref.pfx > db.DATATYPE_STATICLOAD && ref.sid == "" {
						all := true
						for _, k := range extra {
							if !strings.Contains(k, ".") {
								all = false
							}
						}
						if all {
							mech = ":empty-session-lists-other-sessions-as-sid.key"
						}
					}
					report(bk, i, "dump:extra-entries"+mech, fmt.Sprintf("listed %v which are not stored under this type/session/prefix (expected %v)", extra, sortedKeysB(wantDump)))
					dead[bk.name] = true
				case len(missing) > 0:
					report(bk, i, "dump:missing-entries", fmt.Sprintf("missing %v of expected %v", missing, sortedKeysB(wantDump)))
					dead[bk.name] = true
				case len(wrong) > 0:
					report(bk, i, "dump:wrong-values", fmt.Sprintf("wrong values for %v", wrong))
					dead[bk.name] = true
				}
			}
		}
	}
	for _, bk := range bks {
		if bk.name == "pg" {
			for _, cn := range bk.b.Conns {
				if len(cn.Unmodelled) > 0 {
					c.Inconclusive("pgfake unmodelled: " + strings.Join(cn.Unmodelled, ";"))
				}
			}
		}
	}
}

func sortedKeysB(m map[string][]byte) []string {
	l := make([]string, 0, len(m))
	for k := range m {
		l = append(l, k)
	}
	sort.Strings(l)
	return l
}

func c10Strings(ops []c10op) []string {
	s := make([]string, len(ops))
	for i, o := range ops {
		s[i] = o.String()
	}
	return s
}

// scribble overwrites a buffer the caller owns.
func scribble(b []byte) {
	for i := range b {
		b[i] = 'Z'
	}
}

func C10() *vk.Check {
	return &vk.Check{ID: "C10", Level: "exploration", MinEvaluations: 500, Shards: func(string) int { return 16 }, Run: runC10,
		Rule: "lock-step reference map: PRNG sequences of 10..80 operations (Put / Get / SetPrefix / SetSession / SetLanguage / SetLock incl. seal / Dump on fs / resource.DbResource getters) are applied to one reference map keyed by (type, session-if-sessioned, key, language) and to each backend (mem, fs text, fs binary-key, Postgres fake); every result is compared with the model and therefore with every other backend. Four of five sequences use keys in the documented symbol grammar that never end in a language suffix; every fifth uses binary keys (bytes 0x00..0xff, base64 forms with '+') on mem, fs binary-key mode and Postgres. Well-formed keys (the alphabet contains the letters that double as fs type characters: P, 8, ...), session ids are dot-free incl. empty, values text and binary incl. empty, all six data types, language from SetLanguage or from the context value. " +
			"Plus a write-fault family on the fs backends: RLIMIT_FSIZE is lowered around one Put (write(2) fails or is cut short): a Put that reports success must have stored the complete value, a failed one must leave the previous value / not-found. distinct = hash(op list); non-trivial = at least 3 Puts and 3 Gets.",
		Assumptions: []string{"trusted base: the reference map and, for Postgres, pgfake", "listings are compared for the types without language scope; Dump on mem/Postgres is outside the property"}}
}

// c10Translations: enumerated short sequences on one key of every language-scoped type (unlocked first): writes and
// reads of the default entry and of one or two translations in every order, with values that are equal to or
// different from what the other language holds, the language given by SetLanguage or by the context.
func c10Translations(c *vk.Ctx) {
	type step struct {
		lang string // "" = default entry
		put  bool
		val  string
	}
	vals := []string{"same", "same", "other", ""}
	idx := 0
	for _, typ := range []uint8{db.DATATYPE_MENU, db.DATATYPE_TEMPLATE, db.DATATYPE_STATICLOAD} {
		for _, viaCtx := range []bool{false, true} {
			// all sequences of four writes (language in {"", nor, swa} x value) each followed by reads in all three languages
			for code := 0; code < 3*4*3*4*3*4; code++ {
				idx++
				if !c.Mine(idx) {
					continue
				}
				key := fmt.Sprintf("translations/%d/%v/%d", typ, viaCtx, code)
				if !c.Want(key) {
					continue
				}
				x := code
				var steps []step
				for k := 0; k < 3; k++ {
					l := []string{"", "nor", "swa"}[x%3]
					x /= 3
					v := vals[x%4]
					x /= 4
					if k == 2 && v == "same" {
						v = "changed"
					}
					steps = append(steps, step{lang: l, put: true, val: v})
				}
				ops := []c10op{{Op: "lock", Typ: typ, Lock: false}, {Op: "prefix", Typ: typ}}
				setLang := func(l string) string {
					if viaCtx {
						return l
					}
					ops = append(ops, c10op{Op: "language", Lang: l})
					return ""
				}
				resOp := map[uint8]string{db.DATATYPE_TEMPLATE: "res-template", db.DATATYPE_STATICLOAD: "res-func"}[typ]
				for _, st := range steps {
					cl := setLang(st.lang)
					ops = append(ops, c10op{Op: "put", Key: "greeting", Val: []byte(st.val), Ctx: cl})
					for _, rl := range []string{"nor", "", "swa"} {
						cl := setLang(rl)
						ops = append(ops, c10op{Op: "get", Key: "greeting", Ctx: cl})
					}
					if resOp != "" && code%4 == 0 {
						// the same reads through one long-lived resource.DbResource (the store locked again, as a resource
						// needs it): what was written last is what it returns
						ops = append(ops, c10op{Op: "lock", Typ: typ, Lock: true})
						for _, rl := range []string{"nor", "", "swa"} {
							cl := setLang(rl)
							ops = append(ops, c10op{Op: resOp, Key: "greeting", Ctx: cl})
						}
						ops = append(ops, c10op{Op: "lock", Typ: typ, Lock: false}, c10op{Op: "prefix", Typ: typ})
					}
				}
				c.Begin(key)
				runC10Seq(c, ops, key, []string{"mem", "fs", "fsbin", "pg"})
				c.Eval(vk.Hash64(key), true)
				c.Count("translation_sequences", 1)
			}
		}
	}
}

func runC10(c *vk.Ctx) {
	c10IOFault(c)
	c10Translations(c)
	c10LargeValues(c)
	n := c.N(3000, 200000)
	for i := 0; i < n; i++ {
		if !c.Mine(i) {
			continue
		}
		key := fmt.Sprintf("seq/%d", i)
		if !c.Want(key) {
			continue
		}
		r := c.RNG(key)
		binary := i%5 == 4 // every fifth sequence uses binary keys on the backends that take them
		ops := genC10Seq(r, binary)
		backends := []string{"mem", "fs", "fsbin", "pg"}
		if binary {
			backends = []string{"mem", "fsbin", "pg"}
			c.Count("binary_key_sequences", 1)
		}
		c.Begin(key)
		puts, gets := 0, 0
		var sb strings.Builder
		for _, o := range ops {
			sb.WriteString(o.String())
			sb.WriteByte(';')
			if o.Op == "put" {
				puts++
			}
			if o.Op == "get" {
				gets++
			}
		}
		runC10Seq(c, ops, key, backends)
		c.Eval(vk.Hash64(sb.String()), puts >= 3 && gets >= 3)
		if i < 1 {
			c.Sample(map[string]interface{}{"key": key, "ops": c10Strings(ops)})
		}
	}
}

// c10IOFault: the fs backends under a failing write(2) (file-size limit lowered around a single Put):
// a Put that reports success must have stored the complete value; a failed Put must leave the latest
// successful write (or not-found) in place, and the listing exact.
func c10IOFault(c *vk.Ctx) {
	if !c.Mine(0) || (c.Only != "" && c.Only != "iofault") {
		return
	}
	c.Begin("iofault")
	signal.Ignore(syscall.SIGXFSZ)
	ctx := context.Background()
	for _, name := range []string{"fs", "fsbin"} {
		for _, size := range []int{200, 5000, 70000} {
			for _, limit := range []uint64{0, 16, 4096} {
				if int(limit) >= size {
					continue
				}
				for _, prior := range []bool{true, false} {
					b, err := app.NewBackend(name)
					if err != nil {
						continue
					}
					s, _ := b.Handle()
					s.SetPrefix(db.DATATYPE_USERDATA)
					s.SetSession("ses")
					oldVal := []byte("the previous value")
					if prior {
						if err := s.Put(ctx, []byte("key"), oldVal); err != nil {
							b.Cleanup()
							continue
						}
					}
					newVal := bytes.Repeat([]byte("N"), size)
					var saved syscall.Rlimit
					syscall.Getrlimit(syscall.RLIMIT_FSIZE, &saved)
					syscall.Setrlimit(syscall.RLIMIT_FSIZE, &syscall.Rlimit{Cur: limit, Max: saved.Max})
					perr := s.Put(ctx, []byte("key"), newVal)
					syscall.Setrlimit(syscall.RLIMIT_FSIZE, &saved)
					got, gerr := s.Get(ctx, []byte("key"))
					c.EvalN(1, 1)
					c.Count("io_fault_puts", 1)
					what := fmt.Sprintf("%s: Put of %d bytes with the file-size limit at %d (prior value: %v) returned %v; Get then returns %d bytes, err %v", name, size, limit, prior, perr, len(got), gerr)
					cs := map[string]interface{}{"backend": name, "value_bytes": size, "file_size_limit": limit, "prior_value": prior}
					switch {
					case perr == nil && (gerr != nil || !bytes.Equal(got, newVal)):
						c.Violate(name+":put:write-fault-reported-as-success", what, "iofault", cs)
					case perr != nil && prior && (gerr != nil || !bytes.Equal(got, oldVal)):
						c.Violate(name+":put:failed-write-destroyed-previous-value", what, "iofault", cs)
					case perr != nil && !prior && gerr == nil:
						c.Violate(name+":put:failed-write-created-a-record", what, "iofault", cs)
					}
					if perr != nil {
						c.Count("io_fault_puts_refused", 1)
					}
					// a later Put on the same handle works again
					if err := s.Put(ctx, []byte("key"), []byte("after")); err != nil {
						c.Violate(name+":put:store-wedged-after-write-fault", "Put after the fault: "+err.Error(), "iofault", cs)
					}
					b.Cleanup()
				}
			}
		}
	}
}

// c10LargeValues: values far larger than anything the sequences write (1 MiB, 16 MiB, 16 MiB + 1, 17 MiB - a session
// record holding one big loaded value is that size). What was written is what is read, to the byte.
func c10LargeValues(c *vk.Ctx) {
	ctx := context.Background()
	for bi, backend := range []string{"mem", "fs", "fsbin", "pg"} {
		key := "large/" + backend
		if !c.Mine(bi+11) || !c.Want(key) {
			continue
		}
		c.Begin(key)
		b, err := app.NewBackend(backend)
		if err != nil {
			c.Inconclusive(err.Error())
			continue
		}
		for _, size := range []int{1 << 20, 16 << 20, 16<<20 + 1, 17 << 20} {
			s, err := b.Handle()
			if err != nil {
				c.Inconclusive(err.Error())
				break
			}
			v := make([]byte, size)
			for i := range v {
				v[i] = byte(i*7 + i>>11)
			}
			s.SetPrefix(db.DATATYPE_USERDATA)
			s.SetSession("big")
			k := []byte(fmt.Sprintf("v%d", size))
			var perr, gerr error
			var got []byte
			pv, stack := vk.Guard(func() {
				if perr = s.Put(ctx, k, v); perr == nil {
					got, gerr = s.Get(ctx, k)
				}
			})
			c.EvalN(1, 1)
			c.Count("large_values_written_and_read", 1)
			c.Max("max_value_bytes", int64(size))
			csd := map[string]interface{}{"backend": backend, "value_bytes": size}
			switch {
			case pv != nil:
				c.Violate(backend+":large:"+vk.PanicSig(pv, stack), fmt.Sprintf("%s: Put/Get of a value of %d bytes panics: %v", backend, size, pv), key, csd)
			case perr != nil:
				c.Count("large_values_refused_by_put(not this property)", 1)
			case gerr != nil || !bytes.Equal(got, v):
				c.Violate(backend+":get:wrong-value:large", fmt.Sprintf("%s: a value of %d bytes was written without error; Get returns %d bytes (err %v)", backend, size, len(got), gerr), key, csd)
			}
			if backend != "mem" {
				s.Close(ctx)
			}
		}
		b.Cleanup()
	}
}
