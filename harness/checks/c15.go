package checks

import (
	"context"
	"fmt"
	"os"
	"os/exec"
	"path/filepath"
	"strings"

	"git.defalsify.org/vise.git/cache"
	"git.defalsify.org/vise.git/render"
	"git.defalsify.org/vise.git/resource"
	"git.defalsify.org/vise.git/state"
	"git.defalsify.org/vise.git/vm"

	"verif/harness/codec"
	"verif/harness/vk"
)

// ---------------------------------------------------------------------------------------------
// C15 — malformed bytecode: error, never crash / over-read / silent accept

type c15res struct {
	out   string
	err   bool
	pv    interface{}
	stack string
}

func parseAllOn(b []byte) c15res {
	var r c15res
	r.pv, r.stack = vk.Guard(func() {
		s, err := vm.NewParseHandler().WithDefaultHandlers().ToString(b)
		r.out, r.err = s, err != nil
	})
	return r
}

func vmDecodeOn(b []byte) c15res {
	var r c15res
	r.pv, r.stack = vk.Guard(func() {
		p, rest, err := codec.VMDecode(b)
		r.out = strings.Join(codec.Strings(p), "\n") + fmt.Sprintf("|rest=%d", len(rest))
		// an undefined opcode that vm.ParseOp lets through is a success of the decoder, not an error of the walker
		r.err = err != nil && err != codec.ErrUndefinedOpcodeAccepted
	})
	return r
}

// limitedWriter accepts n bytes and fails from then on (a closed pipe, a full disk).
type limitedWriter struct{ n int }

func (w *limitedWriter) Write(p []byte) (int, error) {
	if len(p) > w.n {
		k := w.n
		w.n = 0
		return k, fmt.Errorf("write: no space left")
	}
	w.n -= len(p)
	return len(p), nil
}

// parseAllFailingWriterOn lists into a writer supplied by the caller that fails after a few bytes: a failed write may
// or may not end the listing, but it must not turn malformed code behind that point into a success.
func parseAllFailingWriterOn(b []byte) c15res {
	var r c15res
	r.pv, r.stack = vk.Guard(func() {
		_, err := vm.NewParseHandler().WithDefaultHandlers().WithWriter(&limitedWriter{n: len(b) % 7}).ParseAll(b)
		r.err = err != nil
	})
	return r
}

// present x three ways: exact capacity, and as the prefix of a larger buffer with two different fills.
func presentations(x []byte, scratchA, scratchB []byte) (exact, a, b []byte) {
	exact = make([]byte, len(x))
	copy(exact, x)
	exact = exact[:len(x):len(x)]
	copy(scratchA, x)
	copy(scratchB, x)
	for i := len(x); i < len(x)+300 && i < len(scratchA); i++ {
		scratchA[i] = 0xC3
		scratchB[i] = 0x01
	}
	return exact, scratchA[:len(x)], scratchB[:len(x)]
}

type c15scratch struct {
	a, b []byte
	// ph: one disassembler that lives as long as the worker and is handed every input in the same, reused buffer
	ph *vm.ParseHandler
}

func newC15Scratch() *c15scratch {
	return &c15scratch{a: make([]byte, 70000), b: make([]byte, 70000)}
}

func malformed(class string) bool {
	return class == codec.Truncated || class == codec.BadOpcode || class == codec.OverlongInt || class == codec.ZeroLenSymbol
}

// checkC15 runs the decoders on one input. Returns violations through report.
func checkC15(x []byte, sc *c15scratch, c vk.Recorder, key string, runVM bool) {
	_, class, off := codec.Decode(x)
	c.Count("class_"+class, 1)
	opAt := "?"
	if off+2 <= len(x) {
		if n, ok := codec.OpName[uint16(x[off])<<8|uint16(x[off+1])]; ok {
			opAt = n
		}
	}
	report := func(sig, msg string) {
		c.Violate(sig, msg, key, map[string]interface{}{"bytes_hex": fmt.Sprintf("%x", trunc(x, 400)), "len": len(x), "class": class, "malformed_instruction": opAt})
	}
	exact, pa, pb := presentations(x, sc.a, sc.b)
	// a long-lived disassembler, the input written in place into the buffer it was given last time (a reader that
	// reuses its read buffer): its verdict and listing must be those of a fresh disassembler on a fresh slice
	if len(x) > 0 {
		if sc.ph == nil {
			sc.ph = vm.NewParseHandler().WithDefaultHandlers()
		}
		var ts, tsf string
		var terr, terrf error
		pv, stack := vk.Guard(func() { ts, terr = sc.ph.ToString(pa) })
		pvf, _ := vk.Guard(func() { tsf, terrf = vm.NewParseHandler().WithDefaultHandlers().ToString(exact) })
		switch {
		case pvf != nil:
			sc.ph = nil // reported by the ParseAll leg below
		case pv != nil:
			sc.ph = nil
			report("ToString(long-lived handler, reused buffer):"+vk.PanicSig(pv, stack)+":"+class, fmt.Sprintf("a long-lived ParseHandler panics (%v) on %s input in a reused buffer", pv, class))
		case (terr != nil) != (terrf != nil) || terr == nil && ts != tsf:
			sc.ph = nil
			report("ToString(long-lived handler, reused buffer):differs-from-fresh:"+class, fmt.Sprintf("a long-lived ParseHandler given the input in the buffer it was given before answers (%q, err %v); a fresh one on a fresh slice (%q, err %v)", trunc([]byte(ts), 80), terr, trunc([]byte(tsf), 80), terrf))
		}
	}
	for _, api := range []struct {
		name string
		f    func([]byte) c15res
	}{{"ParseAll", parseAllOn}, {"vm.Parse*", vmDecodeOn}, {"ParseAll(writer that fails)", parseAllFailingWriterOn}} {
		re := api.f(exact)
		if re.pv != nil {
			report(api.name+":"+vk.PanicSig(re.pv, re.stack)+":"+class, fmt.Sprintf("%s panics (%v) on %s input (exact-capacity slice)", api.name, re.pv, class))
			continue
		}
		ra := api.f(pa)
		rb := api.f(pb)
		if ra.pv != nil || rb.pv != nil {
			report(api.name+":"+vk.PanicSig(firstNonNil(ra.pv, rb.pv), ra.stack+rb.stack)+":"+class, fmt.Sprintf("%s panics on %s input (prefix of a larger buffer)", api.name, class))
			continue
		}
		if ra.out != rb.out || ra.err != rb.err || ra.out != re.out || ra.err != re.err {
			report(api.name+":over-read:"+class+":"+opAt, fmt.Sprintf("%s result depends on bytes beyond the end of the input: exact=(%q,%v) fillC3=(%q,%v) fill01=(%q,%v)", api.name, trunc([]byte(re.out), 80), re.err, trunc([]byte(ra.out), 80), ra.err, trunc([]byte(rb.out), 80), rb.err))
			continue
		}
		if malformed(class) && !re.err {
			report(api.name+":silent-accept:"+class+":"+opAt, fmt.Sprintf("%s reports success for %s input", api.name, class))
		}
		if class == codec.Valid && re.err {
			c.Count("valid_input_rejected(not this property)", 1)
		}
	}
	if runVM {
		var runErr error
		// the client input equals the selector of the first INCMP (if any), so that the run goes on in the "already matched" state
		runInput := "1"
		if pfx, _, _ := codec.Decode(x); len(pfx) > 0 {
			for _, ins := range pfx {
				if ins.Op == codec.INCMP && len(ins.S2) > 0 && len(ins.S2) < 200 {
					runInput = ins.S2
					break
				}
			}
		}
		pv, stack := runVMOnInput(exact, runInput, &runErr)
		if pv == nil && (!malformed(class) || runErr != nil) {
			// the same in a session that has seen a failed external load before (LOADFAIL stays set for the session):
			// the error path that sends failing instructions to the _catch node must not take a decode error with it
			var runErr2 error
			pv2, stack2 := runVMOnState(exact, runInput, &runErr2, state.FLAG_LOADFAIL)
			c.Count("vm_runs_with_loadfail_set", 1)
			if pv2 != nil || (malformed(class) && runErr2 == nil) {
				pv, stack, runErr = pv2, stack2, runErr2
			}
		}
		if pv == nil && (!malformed(class) || runErr != nil) {
			// ... and in a session in which every symbol the code names is already loaded (a node entered again,
			// an enclosing node that loaded it): paths that skip work for a loaded symbol must still decode it all
			var runErr3 error
			pv3, stack3 := runVMLoaded(exact, runInput, &runErr3)
			c.Count("vm_runs_with_symbols_already_loaded", 1)
			if pv3 != nil || (malformed(class) && runErr3 == nil) {
				pv, stack, runErr = pv3, stack3, runErr3
			}
		}
		if pv == nil && malformed(class) && runErr == nil {
			// the instructions in front of the malformed one neither stop the run nor discard the buffer nor can fail
			// for lack of a loaded symbol: the run has to decode the malformed instruction and must report it
			prefix, _, _ := codec.Decode(x)
			mustReach := true
			for _, ins := range prefix {
				switch ins.Op {
				case codec.INCMP, codec.MOUT, codec.MNEXT, codec.MPREV, codec.MSINK:
				default:
					mustReach = false
				}
			}
			if mustReach {
				report("Vm.Run:silent-accept:"+class+":"+opAt, fmt.Sprintf("Vm.Run reports success although it had to decode a %s instruction (input set to \"1\")", class))
			}
		}
		if pv != nil {
			sig := vk.PanicSig(pv, stack)
			if strings.Contains(sig, "bit_index") || strings.Contains(sig, "down_into_same_node") || strings.Contains(sig, "maxlevel") {
				c.Count("vm_run_semantic_guard_panics(excluded)", 1)
			} else {
				report("Vm.Run:"+sig+":"+class, fmt.Sprintf("Vm.Run panics (%v) on %s input", pv, class))
			}
		}
		c.Count("vm_runs", 1)
	}
}

func firstNonNil(a, b interface{}) interface{} {
	if a != nil {
		return a
	}
	return b
}

func trunc(b []byte, n int) []byte {
	if len(b) > n {
		return b[:n]
	}
	return b
}

type c15Resource struct{}

func (c15Resource) GetTemplate(ctx context.Context, s string) (string, error) { return "t", nil }
func (c15Resource) GetCode(ctx context.Context, s string) ([]byte, error) {
	if s == "_catch" {
		return vm.NewLine(nil, vm.HALT, nil, nil, nil), nil
	}
	return []byte{}, nil
}
func (c15Resource) GetMenu(ctx context.Context, s string) (string, error) { return s, nil }
func (c15Resource) FuncFor(ctx context.Context, s string) (resource.EntryFunc, error) {
	return func(ctx context.Context, sym string, in []byte) (resource.Result, error) {
		return resource.Result{Content: "v"}, nil
	}, nil
}
func (c15Resource) Close(ctx context.Context) error { return nil }

func runVMOn(b []byte) (interface{}, string) {
	var e error
	return runVMOnErr(b, &e)
}

func runVMOnErr(b []byte, rerr *error) (interface{}, string) {
	return runVMOnInput(b, "1", rerr)
}

func runVMOnInput(b []byte, input string, rerr *error) (interface{}, string) {
	return runVMOnState(b, input, rerr)
}

func runVMOnState(b []byte, input string, rerr *error, flags ...uint32) (interface{}, string) {
	return vk.Guard(func() {
		st := state.NewState(2032)
		st.Down("root")
		for _, f := range flags {
			st.SetFlag(f)
		}
		st.SetInput([]byte(input))
		ca := cache.NewCache()
		v := vm.NewVm(st, c15Resource{}, ca, render.NewSizer(160))
		_, *rerr = v.Run(context.Background(), b)
	})
}

// everLoaded is a session cache in which every symbol is present.
type everLoaded struct{ *cache.Cache }

func (m everLoaded) Get(key string) (string, error) {
	if v, err := m.Cache.Get(key); err == nil {
		return v, nil
	}
	return "v", nil
}

func (m everLoaded) ReservedSize(key string) (uint16, error) {
	if v, err := m.Cache.ReservedSize(key); err == nil {
		return v, nil
	}
	return 100, nil
}

func runVMLoaded(b []byte, input string, rerr *error) (interface{}, string) {
	return vk.Guard(func() {
		st := state.NewState(2032)
		st.Down("root")
		st.SetInput([]byte(input))
		v := vm.NewVm(st, c15Resource{}, everLoaded{cache.NewCache()}, render.NewSizer(160))
		_, *rerr = v.Run(context.Background(), b)
	})
}

var c15Alpha = []byte{0, 1, 2, 3, 4, 5, 6, 7, 8, 9, 10, 11, 12, 13, 0x20, 'a', 0x7f, 0xff}

func genSmallProgram(r *vk.RNG) []codec.Ins {
	n := r.Range(1, 12)
	prog := make([]codec.Ins, 0, n)
	if r.Chance(1, 3) {
		// input-handling blocks: several INCMP lines with valid targets, so that runs reach the states after a match
		prog = append(prog, codec.Ins{Op: codec.INCMP, S1: vk.Pick(r, []string{"foo", "bar", "_", "."}), S2: vk.Pick(r, []string{"1", "a", "*"})})
		prog = append(prog, codec.Ins{Op: codec.INCMP, S1: "baz", S2: vk.Pick(r, []string{"1", "2", "*"})})
	}
	for i := 0; i < n; i++ {
		op := uint16(r.Range(1, 12))
		ins := codec.Ins{Op: op}
		nstr, hasInt, hasMode, _ := codec.Shape(op)
		str := func() string {
			l := r.Range(1, 8)
			if r.Chance(1, 25) {
				l = vk.Pick(r, []int{255, 254, 100})
			}
			s, _ := symOfClass(r, l, vk.Pick(r, []int{1, 1, 1, 2, 3}))
			return s
		}
		if nstr >= 1 {
			ins.S1 = str()
		}
		if nstr >= 2 {
			ins.S2 = str()
		}
		if hasInt {
			ins.N = randInt(r)
		}
		if hasMode {
			ins.Mode = r.Bool()
		}
		prog = append(prog, ins)
	}
	return prog
}

func C15() *vk.Check {
	return &vk.Check{
		ID:    "C15",
		Level: "exploration",
		Rule: "every input is classified by an independent strict validator (complete-valid / truncated / bad-opcode / overlong-int / zero-length-symbol) and presented three ways (cap==len; prefix of a larger buffer with fill 0xC3; same with fill 0x01) to ParseHandler.ToString/ParseAll and to the VM's Parse* chain; Vm.Run on a subset (input 1; a run whose leading instructions are all INCMP/MOUT/MNEXT/MPREV/MSINK must report the malformed instruction behind them). Oracle: no panic; malformed => error; the three presentations agree (else the result depends on bytes past the end = over-read). " +
			"Inputs: ALL byte strings of length<=3 (thorough: 16,843,009, exhaustive; quick: all of length<=2, all of length 3 starting with 0x00, and length 3 with second byte in {0..13,0xff} for the other first bytes, which are all out-of-range opcodes), all strings of length 4..5 (quick) / 4..6 (thorough) over an 18-byte alphabet {0..13,0x20,'a',0x7f,0xff}, and for PRNG programs (1..12 instructions) EVERY truncation and EVERY single-byte substitution (256 values at each position). thorough additionally runs Go's coverage-guided fuzzer (go test -fuzz, 3,000,000 executions, seeded with generated programs and their truncations) on the same oracle. distinct: enumerated inputs are distinct by construction (fuzz executions are counted as evaluations only); non-trivial = every input (each is decoded by both decoders).",
		Assumptions:    []string{"the strict validator (codec.Decode) is the reference for what is malformed", "opcode 0 (NOOP) and errors on complete-valid input are not this property's concern (counted only)", "Vm.Run: only runtime-error panics count; explicit operand guards of package state are execution semantics"},
		MinEvaluations: 100000,
		Shards:         func(string) int { return 16 },
		Run:            runC15,
		Serial:         c15Fuzz,
	}
}

func runC15(c *vk.Ctx) {
	sc := newC15Scratch()
	var n int64
	// (1) all strings of length <= 3, partitioned by first byte
	for first := 0; first < 256; first++ {
		if !c.Mine(first) {
			continue
		}
		key := fmt.Sprintf("short/%02x", first)
		if !c.Want(key) {
			continue
		}
		c.Begin(key)
		if first == 0 {
			checkC15([]byte{}, sc, c, key, true)
			n++
		}
		x := []byte{byte(first)}
		checkC15(x, sc, c, key, true)
		n++
		for b1 := 0; b1 < 256; b1++ {
			x2 := []byte{byte(first), byte(b1)}
			checkC15(x2, sc, c, key, true)
			n++
			if c.Quick() && first != 0 && b1 > 13 && b1 != 0xff {
				continue // quick: a non-zero first byte is always an out-of-range opcode; thorough enumerates all of them
			}
			for b2 := 0; b2 < 256; b2++ {
				x3 := []byte{byte(first), byte(b1), byte(b2)}
				checkC15(x3, sc, c, key, first <= 13 && b2%16 == 0)
				n++
			}
		}
	}
	// (2) reduced alphabet, length 4..L
	L := c.N(5, 6)
	A := len(c15Alpha)
	for i0 := 0; i0 < A; i0++ {
		for i1 := 0; i1 < A; i1++ {
			if !c.Mine(i0*A + i1) {
				continue
			}
			key := fmt.Sprintf("alpha/%d/%d", i0, i1)
			if !c.Want(key) {
				continue
			}
			c.Begin(key)
			x := make([]byte, 0, 8)
			x = append(x, c15Alpha[i0], c15Alpha[i1])
			var rec func(depth int)
			rec = func(depth int) {
				if len(x) >= 4 {
					cp := append([]byte{}, x...)
					checkC15(cp, sc, c, key, len(x) == 4)
					n++
				}
				if len(x) < L {
					for _, a := range c15Alpha {
						x = append(x, a)
						rec(depth + 1)
						x = x[:len(x)-1]
					}
				}
			}
			rec(0)
		}
	}
	c.EvalN(n, n)
	c.Count("enumerated_inputs", n)
	c.SetExhaustive(!c.Quick())
	// (3) mutants of valid programs
	np := c.N(96, 5000)
	var m int64
	for i := 0; i < np; i++ {
		if !c.Mine(i) {
			continue
		}
		key := fmt.Sprintf("mut/%d", i)
		if !c.Want(key) {
			continue
		}
		r := c.RNG(key)
		prog := genSmallProgram(r)
		b := codec.EncodeAll(prog)
		c.Begin(key)
		if i < 2 {
			c.Sample(map[string]interface{}{"key": key, "program": codec.Strings(prog), "mutations": "every truncation + 256 substitutions at each of " + fmt.Sprint(len(b)) + " positions"})
		}
		checkC15(b, sc, c, key, true)
		for t := 0; t < len(b); t++ {
			checkC15(b[:t], sc, c, key, true)
			m++
		}
		for p := 0; p < len(b); p++ {
			orig := b[p]
			for v := 0; v < 256; v++ {
				if byte(v) == orig {
					continue
				}
				b[p] = byte(v)
				checkC15(b, sc, c, key, v%32 == 0)
				m++
			}
			b[p] = orig
		}
		c.Count("programs_mutated", 1)
	}
	c.EvalN(m, m)
	c.Count("mutant_inputs", m)
}

// C15Oracle runs the decoder oracle on one input and returns the signatures of the violations it shows
// (used by the coverage-guided fuzz target of the thorough tier).
func C15Oracle(x []byte) []string {
	c := vk.NewCollector()
	checkC15(x, newC15Scratch(), c, "fuzz", len(x) < 64)
	var sigs []string
	for _, v := range c.Violations() {
		sigs = append(sigs, v.Sig+" :: "+v.Msg)
	}
	return sigs
}

// c15Fuzz runs Go's coverage-guided fuzzer on the fuzz target (thorough tier only).
func c15Fuzz(c *vk.Ctx) {
	c15CLI(c)
	if c.Quick() {
		return
	}
	modfile := os.Getenv("VERIF_MODFILE")
	if modfile == "" {
		c.Inconclusive("VERIF_MODFILE not set: the fuzz leg cannot build")
		return
	}
	tmp, err := os.MkdirTemp("", "c15fuzz-")
	if err != nil {
		c.Inconclusive(err.Error())
		return
	}
	defer os.RemoveAll(tmp)
	// the fuzz target lives in a copy so that crashers are not written into /verif
	src := filepath.Join(vk.VerifDir, "harness")
	work := filepath.Join(tmp, "harness")
	if out, err := exec.Command("cp", "-r", src, work).CombinedOutput(); err != nil {
		c.Inconclusive("cannot copy harness: " + string(out))
		return
	}
	execs := "3000000x"
	cmd := exec.Command("go", "test", "-modfile="+modfile, "-tags", "verif", "./fuzz/", "-run", "^$", "-fuzz", "FuzzC15", "-fuzztime", execs, "-test.fuzzcachedir="+filepath.Join(tmp, "cache"))
	cmd.Dir = work
	out, err := cmd.CombinedOutput()
	text := string(out)
	n := int64(0)
	for _, ln := range strings.Split(text, "\n") {
		if i := strings.Index(ln, "execs: "); i >= 0 {
			var v int64
			fmt.Sscanf(ln[i+7:], "%d", &v)
			if v > n {
				n = v
			}
		}
	}
	c.EvalN(n, 0)
	c.Count("fuzz_executions", n)
	if err != nil {
		if strings.Contains(text, "Failing input written to") || strings.Contains(text, "--- FAIL") {
			msg := text
			if i := strings.Index(msg, "--- FAIL"); i >= 0 {
				msg = msg[i:]
			}
			if len(msg) > 1500 {
				msg = msg[:1500]
			}
			sig := "fuzz:violation"
			if i := strings.Index(msg, "C15VIOLATION "); i >= 0 {
				rest := msg[i+13:]
				if j := strings.Index(rest, " :: "); j > 0 {
					sig = rest[:j]
				}
			}
			c.Violate(sig, "coverage-guided fuzzing found: "+msg, "fuzz", map[string]interface{}{"go_test_output": msg})
			return
		}
		c.Inconclusive("go test -fuzz failed to run: " + trunc2(text, 400))
	}
}

func trunc2(s string, n int) string {
	if len(s) > n {
		return s[:n]
	}
	return s
}

// GenSmallProgramForFuzz exposes the program generator to the fuzz target (corpus seeds).
func GenSmallProgramForFuzz(r *vk.RNG) []codec.Ins { return genSmallProgram(r) }
