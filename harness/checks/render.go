package checks

import (
	"context"
	"errors"
	"fmt"
	"strings"

	"git.defalsify.org/vise.git/cache"
	"git.defalsify.org/vise.git/render"
	"git.defalsify.org/vise.git/resource"

	"verif/harness/vk"
)

// ---------------------------------------------------------------------------------------------
// render layer shared by C01 and C02: drives render.Page + Menu + Sizer directly

const (
	markOpen  = "<<"
	markClose = ">>"
)

type rcase struct {
	Static     string            `json:"static"`   // template text before the values
	Values     map[string]string `json:"values"`   // non-sink mapped values
	Sizes      map[string]uint16 `json:"sizes"`    // declared sizes of the non-sink values
	Order      []string          `json:"order"`    // placeholder order
	HasSink    bool              `json:"has_sink"` // a size-0 symbol "snk" is mapped, wrapped in markers
	Rows       []string          `json:"rows"`     // sink rows
	Tail       string            `json:"tail"`     // static text after the sink
	Menu       [][2]string       `json:"menu"`     // selector, label
	Labels     map[string]string `json:"labels"`   // label -> title
	MSink      bool              `json:"msink"`    // menu is the sink
	Next       *[2]string        `json:"next"`     // selector, title
	Prev       *[2]string        `json:"prev"`
	Sep        string            `json:"sep"`
	ErrPfx     string            `json:"err_prefix"`
	ReuseSizer bool              `json:"reuse_sizer"`
	// Resized: the page was first given a sizer with a larger limit, which the configured one replaces
	Resized bool `json:"resized"`
}

type rres struct{ c *rcase }

func (r rres) GetTemplate(ctx context.Context, s string) (string, error) { return r.c.template(), nil }
func (r rres) GetCode(ctx context.Context, s string) ([]byte, error)     { return nil, nil }
func (r rres) GetMenu(ctx context.Context, s string) (string, error) {
	if t, ok := r.c.Labels[s]; ok {
		return t, nil
	}
	return s, nil
}
func (r rres) FuncFor(ctx context.Context, s string) (resource.EntryFunc, error) { return nil, nil }
func (r rres) Close(ctx context.Context) error                                   { return nil }

func (c *rcase) template() string {
	var sb strings.Builder
	sb.WriteString(c.Static)
	for _, k := range c.Order {
		sb.WriteString(" " + k + "={{." + k + "}}")
	}
	if c.HasSink {
		sb.WriteString("\n" + markOpen + "{{.snk}}" + markClose)
	}
	sb.WriteString(c.Tail)
	return sb.String()
}

// staticHead is the rendered text before the sink section (or the whole template when there is no sink).
func (c *rcase) staticHead() string {
	var sb strings.Builder
	sb.WriteString(c.Static)
	for _, k := range c.Order {
		sb.WriteString(" " + k + "=" + c.Values[k])
	}
	return sb.String()
}

func (c *rcase) sep() string {
	if c.Sep == "" {
		return ":"
	}
	return c.Sep
}

func (c *rcase) title(label string) string {
	if t, ok := c.Labels[label]; ok {
		return t
	}
	return label
}

func (c *rcase) menuLines() []string {
	var l []string
	for _, m := range c.Menu {
		l = append(l, m[0]+c.sep()+c.title(m[1]))
	}
	return l
}

func (c *rcase) sinkValue() string { return strings.Join(c.Rows, "\n") }

// expectedPage composes the page text for a given sink section and page position.
// paged: whether browse entries apply; first/last: position.
func (c *rcase) expectedPage(section string, paged, first, last bool) string {
	var lines []string
	body := c.staticHead()
	if c.HasSink {
		body += "\n" + markOpen + section + markClose
	}
	body += c.Tail
	if c.MSink {
		// template text, line break, menu - also when the template is empty (the page then starts with, or has after
		// the error line, an empty line where the text would be)
		body += "\n" + section
	}
	if c.ErrPfx != "" {
		if body == "" {
			body = c.ErrPfx
		} else {
			body = c.ErrPfx + "\n" + body
		}
	}
	if !c.MSink {
		lines = append(lines, c.menuLines()...)
	}
	if paged {
		if !last && c.Next != nil {
			lines = append(lines, c.Next[0]+c.sep()+c.title(c.Next[1]))
		}
		if !first && c.Prev != nil {
			lines = append(lines, c.Prev[0]+c.sep()+c.title(c.Prev[1]))
		}
	}
	if len(lines) > 0 {
		return body + "\n" + strings.Join(lines, "\n")
	}
	return body
}

type rpage struct {
	Idx int
	Out string
	Err string
	Pv  interface{}
	Stk string
}

// renderer builds the Page/Menu the way the VM does for one render.
type renderer struct {
	c     *rcase
	size  uint32
	ca    *cache.Cache
	sizer *render.Sizer
}

func newRenderer(c *rcase, size uint32) (*renderer, error) {
	r := &renderer{c: c, size: size}
	r.ca = cache.NewCache()
	r.ca.Push()
	for _, k := range c.Order {
		if err := r.ca.Add(k, c.Values[k], c.Sizes[k]); err != nil {
			return nil, err
		}
	}
	if c.HasSink {
		if err := r.ca.Add("snk", c.sinkValue(), 0); err != nil {
			return nil, err
		}
	}
	if size > 0 {
		r.sizer = render.NewSizer(size)
	}
	return r, nil
}

func (r *renderer) render(idx int) rpage {
	c := r.c
	p := rpage{Idx: idx}
	p.Pv, p.Stk = vk.Guard(func() {
		mn := render.NewMenu()
		if c.Sep != "" {
			mn = mn.WithSeparator(c.Sep)
		}
		pg := render.NewPage(r.ca, rres{c})
		pg = pg.WithMenu(mn)
		if r.size > 0 {
			if !c.ReuseSizer {
				r.sizer = render.NewSizer(r.size)
			} else {
				r.sizer.Reset()
			}
			if c.Resized {
				pg = pg.WithSizer(render.NewSizer(r.size*2 + 64))
			}
			pg = pg.WithSizer(r.sizer)
		}
		if c.ErrPfx != "" {
			pg = pg.WithError(errors.New(c.ErrPfx))
		}
		for _, k := range c.Order {
			if err := pg.Map(k); err != nil {
				p.Err = "map: " + err.Error()
				return
			}
		}
		if c.HasSink {
			if err := pg.Map("snk"); err != nil {
				p.Err = "map: " + err.Error()
				return
			}
		}
		for _, m := range c.Menu {
			mn.Put(m[0], m[1])
		}
		cfg := mn.GetBrowseConfig()
		if c.Next != nil {
			cfg.NextSelector, cfg.NextTitle, cfg.NextAvailable = c.Next[0], c.Next[1], true
		}
		if c.Prev != nil {
			cfg.PreviousSelector, cfg.PreviousTitle, cfg.PreviousAvailable = c.Prev[0], c.Prev[1], true
		}
		mn = mn.WithBrowseConfig(cfg)
		if c.MSink {
			bc := mn.GetBrowseConfig()
			mn = mn.WithSink().WithBrowseConfig(bc).WithPages()
		}
		out, err := pg.Render(context.Background(), "node", uint16(idx))
		if err != nil {
			p.Err = err.Error()
			return
		}
		p.Out = out
	})
	return p
}

// section cuts the sink section out of a rendered page. ok=false if the page does not have the expected shape.
func (c *rcase) section(out string, paged, first, last bool) (string, bool) {
	if c.HasSink {
		i := strings.Index(out, markOpen)
		j := strings.LastIndex(out, markClose)
		if i < 0 || j < i {
			return "", false
		}
		return out[i+len(markOpen) : j], true
	}
	if c.MSink {
		// page = [err\n] head tail \n <menu lines of this page> [\n browse lines]
		pre := c.expectedPage("\x00", paged, first, last)
		k := strings.Index(pre, "\x00")
		if k < 0 || len(out) < len(pre)-1 {
			return "", false
		}
		head, tail := pre[:k], pre[k+1:]
		if !strings.HasPrefix(out, head) || !strings.HasSuffix(out, tail) || len(out) < len(head)+len(tail) {
			return "", false
		}
		return out[len(head) : len(out)-len(tail)], true
	}
	return "", true
}

func genRCase(r *vk.RNG, wantSink int) *rcase {
	c := &rcase{Values: map[string]string{}, Sizes: map[string]uint16{}, Labels: map[string]string{}}
	c.Static = vk.Pick(r, []string{"node", "Head line", "a\nb", "x"})
	nv := r.Intn(3)
	for i := 0; i < nv; i++ {
		k := fmt.Sprintf("v%d", i)
		l := vk.Pick(r, []int{1, 3, 8, 20})
		c.Order = append(c.Order, k)
		c.Values[k] = strings.Repeat(string(rune('p'+i)), r.Range(0, l))
		if r.Chance(1, 6) {
			c.Values[k] = "m\nn"
		}
		c.Sizes[k] = uint16(l + 3)
	}
	if r.Chance(1, 3) {
		c.Tail = vk.Pick(r, []string{"\ntail", " t", "\n"})
	}
	if r.Chance(1, 14) {
		// a page of 64 KiB and more: big static text, or two mapped values of 32 KiB each (lengths are 32-bit
		// quantities everywhere; the 16-bit boundary must not matter)
		if r.Bool() {
			c.Static = strings.Repeat("S", 65536*r.Range(1, 2)+r.Range(-40, 60))
		} else {
			for i := 0; i < 2; i++ {
				k := fmt.Sprintf("b%d", i)
				c.Order = append(c.Order, k)
				c.Values[k] = strings.Repeat(string(rune('B'+i)), 32768+r.Range(-20, 30))
				c.Sizes[k] = 40000
			}
		}
	}
	nm := r.Intn(5)
	for i := 0; i < nm; i++ {
		lab := fmt.Sprintf("l%d", i)
		c.Menu = append(c.Menu, [2]string{vk.Pick(r, []string{"0", "1", "2", "9", "00", "a"}), lab})
		switch r.Intn(3) {
		case 0:
			c.Labels[lab] = "T" + strings.Repeat("t", r.Intn(12))
		}
	}
	if r.Chance(1, 5) {
		c.Sep = vk.Pick(r, []string{") ", " - ", ".", " → ", "・・"})
	}
	if r.Chance(1, 5) {
		c.ErrPfx = vk.Pick(r, []string{"invalid input: '9'", "error sym:3", "e"})
	}
	switch wantSink {
	case 1:
		c.HasSink = true
	case 2:
		c.MSink = true
		for len(c.Menu) < 2 || (len(c.Menu) < 12 && r.Chance(3, 4)) {
			lab := fmt.Sprintf("l%d", len(c.Menu))
			c.Menu = append(c.Menu, [2]string{fmt.Sprint(len(c.Menu)), lab})
			if r.Chance(1, 3) {
				c.Labels[lab] = strings.Repeat("w", r.Range(1, 15))
			}
		}
	}
	if c.HasSink {
		n := r.Range(0, 40)
		if r.Chance(1, 2) {
			n = r.Range(0, 8)
		}
		for i := 0; i < n; i++ {
			row := fmt.Sprintf("r%d", i)
			switch r.Intn(8) {
			case 0:
				row = ""
			case 1:
				row += strings.Repeat("y", r.Range(1, 28))
			case 2:
				row = fmt.Sprint(i % 10)
			}
			c.Rows = append(c.Rows, row)
		}
		if len(c.Rows) == 0 {
			c.Rows = []string{""}
		}
		if r.Chance(1, 6) {
			c.Rows = append(c.Rows, "")
		}
		if r.Chance(1, 8) {
			c.Rows = append([]string{""}, c.Rows...)
		}
	}
	if c.HasSink || c.MSink {
		if true {
			c.Next = &[2]string{vk.Pick(r, []string{"11", "n", "9999"}), vk.Pick(r, []string{"next", "fwd_label_long", "n", "следующая", "次のページへ"})}
			if r.Chance(4, 5) {
				c.Prev = &[2]string{vk.Pick(r, []string{"22", "p", "0000"}), vk.Pick(r, []string{"prev", "backwards_label", "p", "предыдущая страница", "ወደ ኋላ"})}
			}
		}
	}
	c.ReuseSizer = r.Chance(1, 2)
	c.Resized = r.Chance(1, 4)
	if wantSink == 2 && c.ErrPfx != "" && r.Chance(1, 2) {
		// a node that is nothing but a paged menu (empty template), shown with an error line - the catch node itself,
		// or a node the catch node bounces back to
		c.Static, c.Order, c.Tail = "", nil, ""
		c.Values, c.Sizes = map[string]string{}, map[string]uint16{}
	}
	return c
}

// walkPages renders idx 0,1,2,... at one size and applies the C01/C02 relation. Returns (sig,msg).
// stats: pages rendered, whether paginated.
func walkPages(c *rcase, size uint32, cnt func(string, int64)) (string, string) {
	rd, err := newRenderer(c, size)
	if err != nil {
		return "", ""
	}
	value := c.sinkValue()
	if c.MSink {
		value = strings.Join(c.menuLines(), "\n")
	}
	hasSink := c.HasSink || c.MSink
	var pages []rpage
	maxIdx := 0
	failErr := ""
	for idx := 0; idx < 200; idx++ {
		p := rd.render(idx)
		cnt("page_renders", 1)
		if p.Pv != nil {
			return vk.PanicSig(p.Pv, p.Stk) + ":" + rowShape(c, pages), fmt.Sprintf("render of page %d at size %d panics: %v", idx, size, p.Pv)
		}
		if p.Err != "" {
			maxIdx = idx
			failErr = p.Err
			break
		}
		if size > 0 && uint32(len(p.Out)) > size {
			return "oversize-page:" + pageKind(c), fmt.Sprintf("page %d is %d bytes, limit %d: %q", idx, len(p.Out), size, p.Out)
		}
		pages = append(pages, p)
	}
	k := len(pages)
	if k >= 200 {
		return "unbounded-pages", "more than 200 pages rendered"
	}
	cnt("successful_pages", int64(k))
	if !hasSink {
		want := c.expectedPage("", false, true, true)
		if k == 0 {
			if size == 0 || uint32(len(want)) <= size {
				// the content fits but the render failed
				return "fitting-page-fails:" + pageKind(c), fmt.Sprintf("size %d: expected page of %d bytes %q, render failed", size, len(want), want)
			}
			return "", ""
		}
		if pages[0].Out != want {
			return "page-text-differs:" + pageKind(c), fmt.Sprintf("size %d: got %q want %q", size, pages[0].Out, want)
		}
		if k > 1 {
			return "index-past-end-answered:" + pageKind(c), fmt.Sprintf("size %d: page index 1 of an unpaged node rendered %q", size, pages[1].Out)
		}
		return "", ""
	}
	if size == 0 {
		// no sizer: single page with the whole content, index > 0 must fail
		want := c.expectedPage(value, false, true, true)
		if c.MSink {
			// without a sizer the menu is rendered normally
			return "", ""
		}
		if k != 1 || pages[0].Out != want {
			return "unsized-page-differs", fmt.Sprintf("got %d pages, first %q want %q", k, first(pages), want)
		}
		return "", ""
	}
	if k == 0 {
		// nothing rendered. That is legitimate when the content cannot be paginated at this size. It can be, by
		// any packing, when every row fits on a page of its own next to both browse entries (two bytes of slack
		// for the separators the packing loop accounts for).
		head := len(c.expectedPage("", false, true, true))
		browse := 0
		if c.Next != nil {
			browse += len(nextLine(c)) + 1
		}
		if c.Prev != nil {
			browse += len(prevLine(c)) + 1
		}
		rows := c.Rows
		if c.MSink {
			rows = c.menuLines()
		}
		maxRow := 0
		for _, r := range rows {
			if len(r) > maxRow {
				maxRow = len(r)
			}
		}
		if head+maxRow+browse+3 <= int(size) && len(rows) > 0 {
			return "first-page-fails-although-every-row-fits-a-page-of-its-own:" + errClass(failErr) + ":" + pageKind(c), fmt.Sprintf("size %d: page 0 fails (%s) although static text (%d bytes) + the longest row (%d) + both browse entries (%d) fit", size, failErr, head, maxRow, browse)
		}
		cnt("configs_where_nothing_fits", 1)
		return "", ""
	}
	cnt("paginated_walks", 1)
	if k > 1 {
		cnt("multi_page_walks", 1)
	}
	// the last page rendered may still offer 'next' although the page after it failed: detect that first
	lastErr := errClass(failErr)
	if c.offersNext(pages[k-1].Out, k == 1) {
		return "offered-next-page-fails:" + lastErr + ":" + pageKind(c) + ":" + c.browseSqueeze(size), fmt.Sprintf("size %d: page %d offers 'next' but page %d fails (%s); page: %q", size, k-1, k, failErr, pages[k-1].Out)
	}
	// reconstruct
	var sections []string
	for i, p := range pages {
		sec, ok := c.section(p.Out, true, i == 0, i == k-1)
		if !ok {
			return "page-shape:" + pageKind(c), fmt.Sprintf("size %d page %d/%d does not have static text + sink section + menu: %q", size, i, k, p.Out)
		}
		want := c.expectedPage(sec, true, i == 0, i == k-1)
		if p.Out != want {
			what := "static-or-menu"
			if strings.Contains(p.Out, "\n"+nextLine(c)) != strings.Contains(want, "\n"+nextLine(c)) && c.Next != nil {
				what = "next-entry"
			} else if c.Prev != nil && strings.Contains(p.Out, "\n"+prevLine(c)) != strings.Contains(want, "\n"+prevLine(c)) {
				what = "previous-entry"
			}
			return "page-text-differs:" + what + ":" + pageKind(c), fmt.Sprintf("size %d page %d of %d: got %q want %q", size, i, k, p.Out, want)
		}
		sections = append(sections, sec)
	}
	got := strings.Join(sections, "\n")
	if got != value {
		return "sink-content:" + contentDiff(value, sections) + ":" + pageKind(c), fmt.Sprintf("size %d: %d pages (then: %s); sections %q do not reassemble to the content %q", size, k, failErr, sections, value)
	}
	// past the end: error, never content
	for _, idx := range []int{k, k + 1} {
		if idx == maxIdx {
			continue
		}
		p := rd.render(idx)
		if p.Pv != nil {
			return vk.PanicSig(p.Pv, p.Stk) + ":past-end", fmt.Sprintf("size %d: render of page %d (past the end, %d pages) panics: %v", size, idx, k, p.Pv)
		}
		if p.Err == "" {
			return "index-past-end-answered:" + pageKind(c), fmt.Sprintf("size %d: %d pages but index %d rendered %q", size, k, idx, p.Out)
		}
	}
	return "", ""
}

func first(p []rpage) string {
	if len(p) == 0 {
		return ""
	}
	return p[0].Out
}

func nextLine(c *rcase) string {
	if c.Next == nil {
		return "\x00"
	}
	return c.Next[0] + c.sep() + c.title(c.Next[1])
}

func prevLine(c *rcase) string {
	if c.Prev == nil {
		return "\x00"
	}
	return c.Prev[0] + c.sep() + c.title(c.Prev[1])
}

func pageKind(c *rcase) string {
	switch {
	case c.HasSink:
		return "sink"
	case c.MSink:
		return "msink"
	}
	return "plain"
}

// rowShape describes the content feature near the failure for panic signatures.
func rowShape(c *rcase, pages []rpage) string {
	if !c.HasSink {
		return pageKind(c)
	}
	s := "sink"
	if len(c.Rows) > 0 && c.Rows[len(c.Rows)-1] == "" {
		s += "+trailing-empty-row"
	}
	return s
}

// contentDiff classifies how the reassembled content differs.
func contentDiff(value string, sections []string) string {
	got := strings.Join(sections, "\n")
	rows := strings.Split(value, "\n")
	grows := strings.Split(got, "\n")
	empties := func(l []string) int {
		n := 0
		for _, r := range l {
			if r == "" {
				n++
			}
		}
		return n
	}
	nonEmpty := func(l []string) string {
		var o []string
		for _, r := range l {
			if r != "" {
				o = append(o, r)
			}
		}
		return strings.Join(o, "\n")
	}
	if nonEmpty(rows) == nonEmpty(grows) {
		if empties(grows) < empties(rows) {
			// where were the dropped rows? align the original rows with the rows of each page
			var pageRows [][]string
			for _, sec := range sections {
				pageRows = append(pageRows, strings.Split(sec, "\n"))
			}
			pi, ri := 0, 0
			onlyAtPageStartOrEnd := true
			for _, r := range rows {
				for pi < len(pageRows) && ri >= len(pageRows[pi]) {
					pi++
					ri = 0
				}
				if pi < len(pageRows) && pageRows[pi][ri] == r {
					ri++
					continue
				}
				if r == "" && (pi >= len(pageRows) || ri == 0) {
					continue // dropped: it would have been the first row of a page, or it trails the content
				}
				onlyAtPageStartOrEnd = false
				break
			}
			if onlyAtPageStartOrEnd {
				return "empty-row-dropped-at-page-start-or-content-end"
			}
			return "empty-row-dropped-elsewhere"
		}
		return "empty-row-added"
	}
	if len(grows) < len(rows) {
		return "row-missing"
	}
	if len(grows) > len(rows) {
		return "row-repeated"
	}
	return "row-altered"
}

// sizesFor picks the sizes to try for a case: learned natural length, neighbourhood, sweep.
func sizesFor(c *rcase, r *vk.RNG, dense bool) []uint32 {
	full := c.expectedPage(c.sinkValue(), false, true, true)
	if c.MSink {
		full = c.expectedPage(strings.Join(c.menuLines(), "\n"), false, true, true)
	}
	L := len(full)
	set := map[uint32]bool{}
	add := func(v int) {
		if v >= 1 && v < 300000 {
			set[uint32(v)] = true
		}
	}
	for d := -3; d <= 3; d++ {
		add(L + d)
	}
	if L >= 65536 {
		// the sizes a 16-bit length would be compared with
		for d := -3; d <= 12; d++ {
			add(L%65536 + d)
		}
		add(160)
		add(65535)
	}
	add(1)
	add(2)
	head := len(c.expectedPage("", false, true, true))
	for d := -2; d <= 6; d++ {
		add(head + d)
	}
	if dense && L-head < 4000 && head < 60000 {
		for s := head - 2; s <= L+2; s++ {
			add(s)
		}
	} else {
		for i := 0; i < 10; i++ {
			add(r.Range(head, L+2))
		}
		for i := 0; i < 4; i++ {
			add(r.Range(1, head+1))
		}
	}
	out := make([]uint32, 0, len(set))
	for s := range set {
		out = append(out, s)
	}
	// deterministic order
	for i := 1; i < len(out); i++ {
		for j := i; j > 0 && out[j] < out[j-1]; j-- {
			out[j], out[j-1] = out[j-1], out[j]
		}
	}
	return out
}

func errClass(e string) string {
	switch {
	case strings.Contains(e, "limit exceeded"):
		return "limit-exceeded"
	case strings.Contains(e, "no more values"):
		return "no-more-values"
	case strings.Contains(e, "out of bounds"):
		return "browse-error"
	case strings.Contains(e, "capacity"):
		return "capacity"
	case e == "":
		return "none"
	}
	return "other"
}

// offersNext reports whether a rendered page ends with the 'next' browse entry (optionally followed by 'previous').
func (c *rcase) offersNext(out string, first bool) bool {
	if c.Next == nil {
		return false
	}
	tail := "\n" + nextLine(c)
	if !first && c.Prev != nil {
		tail += "\n" + prevLine(c)
	}
	return strings.HasSuffix(out, tail)
}

// browseSqueeze tells whether the space left after static text and ordinary menu cannot hold the browse entries
// that joinSink reserves (its unsigned arithmetic then wraps around).
func (c *rcase) browseSqueeze(size uint32) string {
	head := len(c.expectedPage("", false, true, true))
	rem := int(size) - head
	need := 1 + len(nextLine(c)) + 1
	if c.Prev != nil {
		need += len(prevLine(c)) + 1
	}
	if rem-need < 2 {
		return "browse-entries-do-not-fit-beside-content"
	}
	return "space-sufficient"
}
