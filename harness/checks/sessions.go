package checks

import (
	"context"
	"fmt"
	"os"
	"sort"
	"strings"
	"sync"

	"git.defalsify.org/vise.git/cache"
	"git.defalsify.org/vise.git/state"

	"verif/harness/app"
	"verif/harness/specvm"
	"verif/harness/vk"
)

// ---------------------------------------------------------------------------------------------
// model-based session monitor shared by C03 C04 C05 C06 C18 C20 (and the page-text leg of C01)

// disc is a discrepancy between the real engine and the reference model.
type disc struct {
	Kind string // stored-unreadable | position | code-events | calls | cache | flags | terminate-flag | lang-event | lang-state | page-text | cont | exec-error | flush-error | unexpected-output | panic | over-limit
	Step int
	Msg  string
	Sub  string // refinement for signatures
}

const clearToken = "\x00CLEAR-TERMINATE"

type sessOpts struct {
	Driver string // long | mem | fs | fsbin | pg
	// PastEnd: keep sending requests after cont=false (persisted drivers only)
	PastEnd bool
	// FilterReserved: the resource drops reserved flag indices from results (C06 two-run oracle)
	FilterReserved bool
	// TerminateAfterFailure: when a request fails, the client sets TERMINATE on the live state of the long-lived
	// driver and sends two more inputs, which must be blocked (model-free invariant)
	TerminateAfterFailure bool
	// Turn, if set, makes every request wait for this session's turn: two monitored sessions of one application
	// are served request by request in alternation (what a server with several clients does)
	Turn *turnstile
	Side int
}

// turnstile alternates two parties; a party that has finished lets the other run freely.
type turnstile struct {
	mu   sync.Mutex
	cond *sync.Cond
	turn int
	done [2]bool
}

func newTurnstile() *turnstile {
	t := &turnstile{}
	t.cond = sync.NewCond(&t.mu)
	return t
}

func (t *turnstile) acquire(id int) {
	t.mu.Lock()
	for t.turn != id && !t.done[1-id] {
		t.cond.Wait()
	}
	t.mu.Unlock()
}

func (t *turnstile) release(id int) {
	t.mu.Lock()
	t.turn = 1 - id
	t.cond.Broadcast()
	t.mu.Unlock()
}

func (t *turnstile) finish(id int) {
	t.mu.Lock()
	t.done[id] = true
	t.turn = 1 - id
	t.cond.Broadcast()
	t.mu.Unlock()
}

type turnDriver struct {
	inner app.Driver
	t     *turnstile
	id    int
}

func (d *turnDriver) Request(in []byte) *app.Obs {
	d.t.acquire(d.id)
	defer d.t.release(d.id)
	return d.inner.Request(in)
}

func (d *turnDriver) Close() { d.inner.Close() }

type sessStats struct {
	Requests, Moves, Calls, Renders, TextCompared, Blocked, Restarts, Errors int
	Nodes                                                                    map[string]bool
	MaxDepth                                                                 int
	Langs                                                                    map[string]bool
	Transcript                                                               []string
	Obs                                                                      []*app.Obs
}

func evString(e app.Event) string { return e.Kind + ":" + e.Sym }

// monitorSession runs the history on the real engine and on the model in lock-step.
func monitorSession(c *vk.Ctx, a *app.App, cfg app.Config, hist []string, o sessOpts) (*disc, *sessStats) {
	st := &sessStats{Nodes: map[string]bool{}, Langs: map[string]bool{}}
	m := specvm.New(a, cfg)
	var d app.Driver
	var pr *app.PerRequest
	var b *app.Backend
	var llive *app.LongLived
	if o.Driver == "long" || o.Driver == "resume" {
		ll := app.NewLongLived(a, cfg)
		ll.Res.FilterReserved = o.FilterReserved
		if o.Driver == "long" {
			llive = ll
		}
		if o.Driver == "resume" {
			// in-memory resume: the session lives in the client's state and cache objects, a new engine is built over
			// them for every request
			ll.Recreate = true
			m.FreshEngine = true
		}
		d = ll
	} else {
		var err error
		b, err = app.NewBackend(o.Driver)
		if err != nil {
			return &disc{Kind: "harness", Msg: err.Error()}, st
		}
		defer b.Cleanup()
		pr = app.NewPerRequest(a, cfg, b)
		pr.Res.FilterReserved = o.FilterReserved
		d = pr
		m.FreshEngine = true
	}
	if o.Turn != nil {
		d = &turnDriver{inner: d, t: o.Turn, id: o.Side}
		defer o.Turn.finish(o.Side)
	}
	defer d.Close()
	for step, in := range hist {
		if in == clearToken {
			if pr == nil {
				continue
			}
			if err := pr.Mutate(func(s *state.State, ca *cache.Cache) { s.ResetFlag(state.FLAG_TERMINATE) }); err != nil {
				return &disc{Kind: "harness", Step: step, Msg: "cannot clear TERMINATE in the stored state: " + err.Error()}, st
			}
			m.ClearTerminate()
			continue
		}
		wasTerminated := m.Terminated()
		if cfg.ResetOnEmptyInput && in == "" {
			wasTerminated = false // a new dial-in: the engine resets the session, TERMINATE included (the model says when)
		}
		callsBefore := cloneCalls(m.Calls)
		p := m.Request(in)
		c.Note(o.Driver + " " + printable(in))
		ob := d.Request([]byte(in))
		st.Requests++
		st.Obs = append(st.Obs, ob)
		st.Transcript = append(st.Transcript, ob.Brief())
		_ = callsBefore
		if ob.Panic != "" {
			return &disc{Kind: "panic", Step: step, Msg: "panic: " + ob.Panic, Sub: ob.PanicSig}, st
		}
		if (ob.ExecErr != "") != p.ExecErr {
			return &disc{Kind: "exec-error", Step: step, Sub: boolWord(p.ExecErr, "expected-error", "unexpected-error"),
				Msg: fmt.Sprintf("input %s: model says error=%v (%s), engine says %q", printable(in), p.ExecErr, p.ExecErrWhy, ob.ExecErr)}, st
		}
		if p.Refused {
			continue
		}
		// callbacks of the exec phase
		var gotCode, wantCode, gotCalls, wantCalls []string
		for _, e := range ob.ExecEvents {
			switch e.Kind {
			case "code":
				gotCode = append(gotCode, e.Sym)
			case "call":
				gotCalls = append(gotCalls, fmt.Sprintf("%s(%s)", e.Sym, e.Input))
			}
		}
		for _, e := range p.Events {
			switch e.Kind {
			case "code":
				wantCode = append(wantCode, e.Sym)
			case "call":
				wantCalls = append(wantCalls, fmt.Sprintf("%s(%s)", e.Sym, e.Input))
			}
		}
		st.Moves += len(gotCode)
		st.Calls += len(gotCalls)
		if strings.Join(gotCode, ",") != strings.Join(wantCode, ",") {
			return &disc{Kind: "code-events", Step: step, Msg: fmt.Sprintf("input %s: nodes fetched %v, model %v", printable(in), gotCode, wantCode)}, st
		}
		if strings.Join(gotCalls, ",") != strings.Join(wantCalls, ",") {
			sub := "extra-call"
			if len(gotCalls) < len(wantCalls) {
				sub = "missing-call"
			}
			if wasTerminated {
				sub = "call-while-terminated"
			}
			return &disc{Kind: "calls", Step: step, Sub: sub, Msg: fmt.Sprintf("input %s: external calls %v, model %v", printable(in), gotCalls, wantCalls)}, st
		}
		if wasTerminated && len(ob.Events) > 0 {
			return &disc{Kind: "calls", Step: step, Sub: "callback-while-terminated", Msg: fmt.Sprintf("input %s: TERMINATE is set but the engine made callbacks %v", printable(in), ob.Events)}, st
		}
		if ob.ExecErr != "" {
			st.Errors++
			if o.TerminateAfterFailure && llive != nil {
				// The state after a failed request is unspecified - but one thing holds in any state: once TERMINATE is
				// set (here by the client, on the live state object, as an operator ending a broken session would),
				// the same engine must not execute, call out or move until the flag is cleared.
				// Every other time the operator first rewinds the session (Engine.Reset), which leaves code pending.
				if step%2 == 0 {
					vk.Guard(func() { llive.En.Reset(context.Background(), true) })
					llive.Res.Take()
				}
				if pv, _ := vk.Guard(func() { llive.St.SetFlag(state.FLAG_TERMINATE) }); pv != nil {
					break
				}
				before := app.SnapState(llive.St)
				for k, in2 := range []string{"1", "0"} { // not the empty input: with ResetOnEmptyInput that is a new dial-in, which lifts TERMINATE
					ob2 := d.Request([]byte(in2))
					st.Requests++
					st.Blocked++
					st.Transcript = append(st.Transcript, "(TERMINATE set by the client after the failed request) "+ob2.Brief())
					if ob2.Panic != "" {
						return &disc{Kind: "panic", Step: step, Msg: "panic: " + ob2.Panic, Sub: ob2.PanicSig}, st
					}
					after := app.SnapState(llive.St)
					if len(ob2.Events) > 0 || ob2.Out != "" || strings.Join(after.ExecPath, "/") != strings.Join(before.ExecPath, "/") {
						return &disc{Kind: "calls", Step: step, Sub: "active-while-terminated-after-failure",
							Msg: fmt.Sprintf("request %d after a failed request, TERMINATE set by the client on the live state: input %s made callbacks %v, wrote %q, position %v -> %v", k+1, printable(in2), ob2.Events, ob2.Out, before.ExecPath, after.ExecPath)}, st
					}
				}
			}
			break // state after a failed request is unspecified
		}
		// language carried by each exec-phase callback
		k := 0
		for _, e := range ob.ExecEvents {
			if e.Kind != "code" && e.Kind != "funcfor" && e.Kind != "call" {
				continue
			}
			if k < len(p.Events) {
				pe := p.Events[k]
				k++
				if !pe.LangUnknown && pe.Lang != e.Lang {
					return &disc{Kind: "lang-event", Step: step, Sub: e.Kind + ":exec", Msg: fmt.Sprintf("input %s: %s carried language %q, model %q", printable(in), evString(e), e.Lang, pe.Lang)}, st
				}
				st.Langs[e.Lang] = true
			}
		}
		if ob.Cont != p.Cont {
			return &disc{Kind: "cont", Step: step, Sub: boolWord(p.Cont, "stops-early", "continues"), Msg: fmt.Sprintf("input %s: engine cont=%v, model cont=%v", printable(in), ob.Cont, p.Cont)}, st
		}
		// Flush
		if !p.FlushDontCare {
			switch {
			case p.NoOutput:
				if ob.Out != "" || ob.FlushErr != "" {
					sub := "no-page-due"
					if wasTerminated {
						sub = "while-terminated"
					}
					return &disc{Kind: "unexpected-output", Step: step, Sub: sub, Msg: fmt.Sprintf("input %s: nothing is due but Flush gave out=%q err=%q", printable(in), ob.Out, ob.FlushErr)}, st
				}
				st.Blocked++
			case p.FlushErr:
				if ob.FlushErr == "" {
					return &disc{Kind: "flush-error", Step: step, Sub: "expected-error", Msg: fmt.Sprintf("input %s: model says the render must fail, engine wrote %q", printable(in), ob.Out)}, st
				}
			case p.PageKnown:
				want := p.PageText
				if p.Graceful {
					want += p.ExitValue
				}
				if ob.FlushErr != "" {
					return &disc{Kind: "flush-error", Step: step, Sub: "unexpected-error", Msg: fmt.Sprintf("input %s: model page %q, engine Flush failed: %s", printable(in), want, ob.FlushErr)}, st
				}
				if ob.Out != want {
					return &disc{Kind: "page-text", Step: step, Sub: textDiff(want, ob.Out), Msg: fmt.Sprintf("input %s: page %q, model %q", printable(in), ob.Out, want)}, st
				}
				st.TextCompared++
			}
		}
		if ob.Out != "" {
			st.Renders++
		}
		if !p.RenderLangUnknown {
			for _, e := range ob.FlushEvents {
				if e.Lang != p.RenderLang {
					return &disc{Kind: "lang-event", Step: step, Sub: e.Kind + ":flush", Msg: fmt.Sprintf("input %s: %s during Flush carried language %q, model %q", printable(in), evString(e), e.Lang, p.RenderLang)}, st
				}
				st.Langs[e.Lang] = true
			}
		}
		if p.PostStateUnknown {
			break
		}
		// state after the request: live objects and (persisted driver) the decoded stored snapshot
		views := []struct {
			name string
			s    *app.StateSnap
			ca   *app.CacheSnap
		}{{"live", ob.State, ob.Cache}}
		if pr != nil {
			if ob.StoredErr != "" {
				// what the request left in the store cannot be loaded: position, flags and every loaded symbol are lost
				return &disc{Kind: "stored-unreadable", Step: step, Msg: fmt.Sprintf("the stored session cannot be loaded after the request (Finish returned %q): %s", ob.FinishErr, ob.StoredErr)}, st
			}
			views = append(views, struct {
				name string
				s    *app.StateSnap
				ca   *app.CacheSnap
			}{"stored", ob.StoredState, ob.StoredCache})
		}
		for _, v := range views {
			if v.s == nil {
				continue
			}
			if strings.Join(v.s.ExecPath, "/") != strings.Join(m.Stack, "/") || int(v.s.SizeIdx) != m.Idx {
				return &disc{Kind: "position", Step: step, Sub: v.name, Msg: fmt.Sprintf("input %s: %s position %v idx %d, model %v idx %d", printable(in), v.name, v.s.ExecPath, v.s.SizeIdx, m.Stack, m.Idx)}, st
			}
			if fmt.Sprint(v.s.ClientFlags()) != fmt.Sprint(m.ClientFlags()) {
				return &disc{Kind: "flags", Step: step, Sub: v.name, Msg: fmt.Sprintf("input %s: %s client flags %v, model %v", printable(in), v.name, v.s.ClientFlags(), m.ClientFlags())}, st
			}
			if v.s.Flag(6) != m.Terminated() {
				return &disc{Kind: "terminate-flag", Step: step, Sub: v.name, Msg: fmt.Sprintf("input %s: %s TERMINATE=%v, model %v", printable(in), v.name, v.s.Flag(6), m.Terminated())}, st
			}
			if !m.LangUnknown && v.s.Lang != m.Lang {
				return &disc{Kind: "lang-state", Step: step, Sub: v.name, Msg: fmt.Sprintf("input %s: %s language %q, model %q", printable(in), v.name, v.s.Lang, m.Lang)}, st
			}
			if v.ca != nil {
				if msg := cacheDiff(v.ca, m); msg != "" {
					return &disc{Kind: "cache", Step: step, Sub: v.name, Msg: fmt.Sprintf("input %s: %s cache: %s", printable(in), v.name, msg)}, st
				}
				for fi, f := range v.ca.Frames {
					for k, val := range f {
						if lim := v.ca.Sizes[k]; lim > 0 && len(val) > int(lim) {
							return &disc{Kind: "over-limit", Step: step, Msg: fmt.Sprintf("scope %d symbol %s holds %d bytes, limit %d", fi, k, len(val), lim)}, st
						}
					}
				}
			}
		}
		if len(m.Stack) > st.MaxDepth {
			st.MaxDepth = len(m.Stack)
		}
		if t := topOf(m.Stack); t != "" {
			st.Nodes[t] = true
		}
		if p.Graceful {
			st.Restarts++
		}
		if !ob.Cont && !o.PastEnd {
			break
		}
	}
	return nil, st
}

func topOf(s []string) string {
	if len(s) == 0 {
		return ""
	}
	return s[len(s)-1]
}

func boolWord(b bool, t, f string) string {
	if b {
		return t
	}
	return f
}

func textDiff(want, got string) string {
	wl, gl := strings.Split(want, "\n"), strings.Split(got, "\n")
	switch {
	case len(wl) != len(gl):
		return "line-count"
	case wl[0] != gl[0]:
		return "first-line"
	}
	return "other-line"
}

func cacheDiff(ca *app.CacheSnap, m *specvm.Model) string {
	if len(ca.Frames) != len(m.Scopes) {
		return fmt.Sprintf("%d scopes, model %d", len(ca.Frames), len(m.Scopes))
	}
	for i, f := range ca.Frames {
		ms := m.Scopes[i]
		var ks, mks []string
		for k := range f {
			ks = append(ks, k)
		}
		for k := range ms {
			mks = append(mks, k)
		}
		sort.Strings(ks)
		sort.Strings(mks)
		if strings.Join(ks, ",") != strings.Join(mks, ",") {
			return fmt.Sprintf("scope %d holds %v, model %v", i, ks, mks)
		}
		for _, k := range ks {
			if f[k] != ms[k].Val {
				return fmt.Sprintf("scope %d symbol %s = %q, model %q", i, k, short(f[k]), short(ms[k].Val))
			}
			if uint32(ca.Sizes[k]) != ms[k].Limit {
				return fmt.Sprintf("symbol %s limit %d, model %d", k, ca.Sizes[k], ms[k].Limit)
			}
		}
	}
	return ""
}

func short(s string) string {
	if len(s) > 40 {
		return fmt.Sprintf("%s…(%d bytes)", s[:20], len(s))
	}
	return s
}

// specProfile is the generator profile for model-based checks: no paginated content.
func specProfile(r *vk.RNG) app.Profile {
	p := app.DefaultProfile()
	p.Sinks = false
	p.Lang = r.Chance(1, 4)
	p.Croak = r.Chance(1, 3)
	p.Terminate = r.Chance(1, 5)
	p.BigValues = r.Chance(1, 4)
	p.FixedSizes = r.Chance(1, 2)
	p.CatchVariants = r.Chance(1, 2)
	p.EarlyIncmp = r.Chance(1, 3)
	return p
}

// runModelCheck is the common driver of the model-based checks.
type modelCheck struct {
	ID      string
	Kinds   map[string]bool // discrepancy kinds that belong to this property
	Profile func(r *vk.RNG) app.Profile
	Drivers []string
	HistLen [2]int
	PastEnd bool
	N       [2]int
	// NonTrivial decides from the stats whether the history counts as non-trivial
	NonTrivial func(s *sessStats) bool
	// Hist lets a check build special histories
	Hist func(r *vk.RNG, a *app.App) []string
	// Config tweak
	Config func(r *vk.RNG, a *app.App, cfg *app.Config)
	// TerminateAfterFailure: see sessOpts
	TerminateAfterFailure bool
}

func (mc *modelCheck) run(c *vk.Ctx) {
	n := c.N(mc.N[0], mc.N[1])
	for i := 0; i < n; i++ {
		if !c.Mine(i) {
			continue
		}
		key := fmt.Sprintf("hist/%d", i)
		if !c.Want(key) {
			continue
		}
		r := c.RNG(key)
		a := app.Generate(r, mc.Profile(r))
		cfg := genConfig(r, a, "ses1")
		if a.Trans["nor"] != nil && r.Chance(1, 3) {
			cfg.Language = vk.Pick(r, []string{"nor", "swa", "eng", "fra", "no", "fre", "sw"})
		}
		if mc.Config != nil {
			mc.Config(r, a, &cfg)
		}
		if !cfg.First && a.Funcs["_first"] == nil && c.RNG(key+"/first").Chance(1, 6) {
			// a side-effect free pre-VM function (Engine.WithFirst) must be invisible to the session
			a.Funcs["_first"] = &app.FuncSpec{Sym: "_first", Kind: "idlang"}
			cfg.First = true
		}
		if cfg.First {
			c.Count("histories_with_pre_vm_function", 1)
		}
		if c.RNG(key+"/dbg").Chance(1, 8) {
			cfg.Debug = true // StateDebug/EngineDebug and an engine.SimpleDebug: observers must not change anything
		}
		if c.RNG(key+"/fus").Chance(1, 5) {
			cfg.FuncUsesStore = true // per-request drivers: the functions keep user data in the store that holds the session
		}
		var hist []string
		if mc.Hist != nil {
			hist = mc.Hist(r, a)
		} else {
			hist = a.History(r, r.Range(mc.HistLen[0], mc.HistLen[1]))
		}
		if rr := c.RNG(key + "/roei"); rr.Chance(1, 5) {
			// engine.Config.ResetOnEmptyInput, with empty inputs (new dial-ins) at any point of the history
			cfg.ResetOnEmptyInput = true
			for k := 1; k < len(hist); k++ {
				if hist[k] != clearToken && rr.Chance(1, 5) {
					hist[k] = ""
				}
			}
			c.Count("histories_with_reset_on_empty_input", 1)
		}
		c.Begin(key)
		// every fourth case serves a second session of the same application in alternation with the monitored one
		// (its own engine, state, cache, store; the application data is shared): both are checked against their models
		pair := i%4 == 1
		var hist2 []string
		cfg2 := cfg
		a2 := a
		if pair {
			cfg2.SessionId = cfg.SessionId + "-other"
			r2 := c.RNG(key + "/pair")
			if i%8 == 5 {
				// the other session belongs to another application served by the same process (its own nodes, catch
				// node, functions): whatever the library keeps process-wide is now fed by two different programs
				r3 := c.RNG(key + "/pairapp")
				a2 = app.Generate(r3, mc.Profile(r3))
				cfg2 = genConfig(r3, a2, cfg2.SessionId)
				c.Count("histories_served_in_alternation_with_a_session_of_another_application", 1)
			}
			if mc.Hist != nil {
				hist2 = mc.Hist(r2, a2)
			} else {
				hist2 = a2.History(r2, r2.Range(mc.HistLen[0], mc.HistLen[1]))
			}
			c.Count("histories_served_in_alternation_with_a_second_session", 1)
		}
		for _, drv := range mc.Drivers {
			var d *disc
			var st *sessStats
			if pair {
				t := newTurnstile()
				var d2 *disc
				var wg sync.WaitGroup
				wg.Add(1)
				go func() {
					defer wg.Done()
					defer func() {
						if pv := recover(); pv != nil {
							t.finish(1)
							d2 = &disc{Kind: "harness", Msg: fmt.Sprintf("second session: %v", pv)}
						}
					}()
					d2, _ = monitorSession(c, a2, cfg2, hist2, sessOpts{Driver: drv, PastEnd: mc.PastEnd && drv != "long", Turn: t, Side: 1})
				}()
				d, st = monitorSession(c, a, cfg, hist, sessOpts{Driver: drv, PastEnd: mc.PastEnd && drv != "long", Turn: t, Side: 0, TerminateAfterFailure: mc.TerminateAfterFailure})
				wg.Wait()
				if d == nil && d2 != nil {
					d = d2
					d.Msg = "(second session, served in alternation) " + d.Msg
				}
			} else {
				d, st = monitorSession(c, a, cfg, hist, sessOpts{Driver: drv, PastEnd: mc.PastEnd && drv != "long", TerminateAfterFailure: mc.TerminateAfterFailure})
			}
			c.Eval(vk.Hash64(key, drv), mc.NonTrivial == nil || mc.NonTrivial(st))
			c.Count("requests", int64(st.Requests))
			c.Count("moves_observed", int64(st.Moves))
			c.Count("external_calls_observed", int64(st.Calls))
			c.Count("pages_compared_textually", int64(st.TextCompared))
			c.Count("blocked_requests_observed", int64(st.Blocked))
			c.Count("graceful_restarts_observed", int64(st.Restarts))
			c.Max("max_stack_depth", int64(st.MaxDepth))
			for l := range st.Langs {
				c.SetAdd("languages_seen_on_lookups", "lang="+l)
			}
			if i < 1 && drv == mc.Drivers[0] {
				c.Sample(map[string]interface{}{"key": key, "driver": drv, "config": cfg, "app": a.Describe(), "history": printableHist(hist), "transcript": st.Transcript})
			}
			if d == nil {
				continue
			}
			if d.Kind == "harness" {
				c.Inconclusive(d.Msg)
				continue
			}
			if !mc.Kinds[d.Kind] && os.Getenv("VERIF_ALL_KINDS") == "" {
				c.Count("discrepancies_of_other_properties_ignored:"+d.Kind, 1)
				continue
			}
			sig := d.Kind
			if d.Sub != "" {
				sig += ":" + d.Sub
			}
			c.Violate(sig, fmt.Sprintf("step %d (%s driver): %s", d.Step, drv, d.Msg), key,
				map[string]interface{}{"driver": drv, "config": cfg, "app": a.Describe(), "history": printableHist(hist[:minInt(len(hist), d.Step+1)]), "transcript": st.Transcript})
		}
	}
}

func minInt(a, b int) int {
	if a < b {
		return a
	}
	return b
}
