package checks

import (
	"fmt"
	"os"
	"strings"

	"verif/harness/app"
	"verif/harness/codec"
	"verif/harness/specvm"
	"verif/harness/vk"
)

// ---------------------------------------------------------------------------------------------
// C01 — every rendered page fits the configured output size (or the render fails, writing nothing)

func C01() *vk.Check {
	return &vk.Check{
		ID:    "C01",
		Level: "exploration",
		Rule: "render layer: generated template / mapped values / menus / browse entries / error prefix, with and without a sink or MSINK, every page index up to past the end; each case is first measured without limit and then rendered at every size in {1,2, L-3..L+3, head-2..head+6} plus a dense sweep between (L = natural length, head = length without sink content). Oracle: success => len(out) <= size; non-sink page: out equals the composed page text exactly, and a page longer than the size must fail; sink pages obey the C02 relation. " +
			"engine layer: whole generated applications are served twice in lock-step, without limit and with OutputSize S, S taken adversarially from the natural lengths of that history's pages (L-2..L+2) and PRNG; every Flush: len(out) <= S; error => nothing written; for applications without sinks: len(natural) <= S => identical output, len(natural) > S => Flush must fail (no truncation). Both drivers. " +
			"distinct = hash(case, size); non-trivial = the size lies within 3 bytes of a natural page length or the page is paginated.",
		Assumptions:    []string{"templates use the {{.sym}} placeholder form only", "the composed page text (error prefix LF template LF menu lines) is the harness's reading of render.Page"},
		MinEvaluations: 1000,
		Shards:         func(string) int { return 16 },
		Run:            runC01,
	}
}

func runC01(c *vk.Ctx) {
	c01EchoedInput(c)
	cnt := func(name string, v int64) { c.Count(name, v) }
	n := c.N(2400, 100000)
	for i := 0; i < n; i++ {
		if !c.Mine(i) {
			continue
		}
		key := fmt.Sprintf("render/%d", i)
		if !c.Want(key) {
			continue
		}
		r := c.RNG(key)
		rc := genRCase(r, i%3) // plain, sink, msink
		c.Begin(key)
		if i < 1 {
			c.Sample(map[string]interface{}{"key": key, "case": rc})
		}
		full := len(rc.expectedPage(rc.sinkValue(), false, true, true))
		for _, size := range append([]uint32{0}, sizesFor(rc, r, i%3 == 0 || i%5 == 0)...) {
			sig, msg := walkPages(rc, size, cnt)
			near := int(size) >= full-3 && int(size) <= full+3
			c.Eval(vk.Hash64(key, fmt.Sprint(size)), near || i%3 != 0)
			if sig != "" {
				if strings.HasPrefix(sig, "offered-next-page-fails") || strings.HasPrefix(sig, "sink-content") || strings.HasPrefix(sig, "page-shape") {
					c.Count("pagination_relation_findings(C02, not this property)", 1)
					continue
				}
				c.Violate(sig, msg, key, map[string]interface{}{"case": rc, "size": size, "template": rc.template()})
			}
		}
	}
	// model layer: exact page text at sizes around each page's natural length
	nm := c.N(400, 20000)
	for i := 0; i < nm; i++ {
		if !c.Mine(i) {
			continue
		}
		key := fmt.Sprintf("model/%d", i)
		if !c.Want(key) {
			continue
		}
		r := c.RNG(key)
		p := specProfile(r)
		p.BigValues = false
		p.Latin1 = i%5 == 0 // content that is not UTF-8: a page is bytes, and its size is counted in bytes
		a := app.Generate(r, p)
		cfg := genConfig(r, a, "s")
		if a.Trans["nor"] != nil && r.Chance(1, 3) {
			cfg.Language = "nor"
		}
		hist := a.History(r, r.Range(3, 14))
		// natural page lengths from the model alone
		cfg0 := cfg
		cfg0.OutputSize = 0
		m := specvm.New(a, cfg0)
		sizes := map[uint32]bool{}
		for _, in := range hist {
			pr := m.Request(in)
			if pr.ExecErr && !pr.Refused {
				break
			}
			if pr.PageKnown {
				l := len(pr.PageText) + len(pr.ExitValue)
				for d := -2; d <= 2; d++ {
					if l+d >= 1 {
						sizes[uint32(l+d)] = true
					}
				}
			}
			if !pr.Cont {
				break
			}
		}
		c.Begin(key)
		for size := range sizes {
			cf := cfg
			cf.OutputSize = size
			for _, drv := range []string{"long", "mem"} {
				if p.Latin1 && drv != "long" {
					continue // a session holding such a value cannot be resumed (recorded under C07)
				}
				d, st := monitorSession(c, a, cf, hist, sessOpts{Driver: drv})
				c.Eval(vk.Hash64(key, drv, fmt.Sprint(size)), st.TextCompared > 0)
				c.Count("model_pages_compared_textually", int64(st.TextCompared))
				c.Count("model_requests", int64(st.Requests))
				if d != nil && (d.Kind == "page-text" || d.Kind == "flush-error") {
					c.Violate("model:"+d.Kind+":"+d.Sub, fmt.Sprintf("OutputSize %d step %d (%s): %s", size, d.Step, drv, d.Msg), key,
						map[string]interface{}{"driver": drv, "config": cf, "app": a.Describe(), "history": printableHist(hist), "transcript": st.Transcript})
				}
			}
		}
	}
	// engine layer
	ne := c.N(500, 20000)
	for i := 0; i < ne; i++ {
		if !c.Mine(i) {
			continue
		}
		key := fmt.Sprintf("engine/%d", i)
		if !c.Want(key) {
			continue
		}
		r := c.RNG(key)
		p := c07Profile(r)
		p.Sinks = i%2 == 1
		p.BigValues = i%6 == 0 // results of 65536+limit.. bytes are refused by the cache; 65535-byte limits make 64 KiB pages
		p.Latin1 = i%4 == 1    // function results and sink rows with bytes that are not UTF-8
		a := app.Generate(r, p)
		if p.Latin1 {
			c.Count("engine_apps_with_non_utf8_content", 1)
		}
		cfg := genConfig(r, a, "s")
		cfg.OutputSize = 0
		if a.Trans["nor"] != nil && r.Chance(1, 3) {
			cfg.Language = "nor"
		}
		hist := a.History(r, r.Range(3, 16))
		c.Begin(key)
		for _, drv := range []string{"long", "mem"} {
			mk := func(cf app.Config) (app.Driver, *app.Backend) {
				if drv == "long" {
					d := app.NewLongLived(a, cf)
					return d, nil
				}
				b, _ := app.NewBackend(drv)
				d := app.NewPerRequest(a, cf, b)
				d.SkipStoredRead = true
				return d, b
			}
			// natural run
			d0, b0 := mk(cfg)
			var nat []*app.Obs
			for _, in := range hist {
				o := d0.Request([]byte(in))
				nat = append(nat, o)
				if !o.Cont || o.ExecErr != "" || o.Panic != "" {
					break
				}
			}
			d0.Close()
			if b0 != nil {
				b0.Cleanup()
			}
			sizes := map[uint32]bool{}
			for _, o := range nat {
				if l := len(o.Out); l > 0 {
					for d := -2; d <= 2; d++ {
						if l+d >= 1 {
							sizes[uint32(l+d)] = true
						}
					}
				}
			}
			for k := 0; k < 3; k++ {
				sizes[uint32(r.Range(1, 200))] = true
			}
			for size := range sizes {
				cf := cfg
				cf.OutputSize = size
				d, b := mk(cf)
				for step := range nat {
					o := d.Request([]byte(hist[step]))
					c.Count("engine_flushes", 1)
					no := nat[step]
					if c.Only != "" && os.Getenv("VERIF_DEBUG_SIZE") == fmt.Sprint(size) && drv == "long" {
						fmt.Fprintf(os.Stderr, "NAT %s\n    %+v\nSZD %s\n    %+v %v\n", no.Brief(), no.State, o.Brief(), o.State, o.Events)
					}
					cs := func() map[string]interface{} {
						return map[string]interface{}{"driver": drv, "app": a.Describe(), "config": cf, "history": hist[:step+1], "natural": no.Brief(), "sized": o.Brief()}
					}
					near := len(no.Out)-int(size) >= -2 && len(no.Out)-int(size) <= 2
					c.Eval(vk.Hash64(key, drv, fmt.Sprint(size), fmt.Sprint(step)), near)
					if o.Panic != "" {
						break
					}
					if o.ExecErr != "" || no.ExecErr != "" {
						break
					}
					if uint32(len(o.Out)) > size {
						what := "page"
						if !o.Cont {
							what = "final-page-with-exit-value"
						}
						c.Violate("engine:oversize:"+what, fmt.Sprintf("OutputSize %d, output %d bytes: %q", size, len(o.Out), o.Out), key, cs())
						break
					}
					if o.FlushErr != "" && (o.Out != "" || o.FlushN != 0) {
						c.Violate("engine:output-and-error", fmt.Sprintf("Flush wrote %q (%d) and returned error %s", o.Out, o.FlushN, o.FlushErr), key, cs())
						break
					}
					if !p.Sinks {
						if len(no.Out) <= int(size) && no.FlushErr == "" {
							if o.FlushErr != "" {
								// a render can fail for reasons other than size (e.g. a stale mapping): not this property
								c.Count("engine_fitting_pages_failing_for_other_reasons(dont-care)", 1)
								continue
							}
							if o.Out != no.Out {
								c.Violate("engine:sized-page-differs", fmt.Sprintf("OutputSize %d: natural %q sized %q", size, no.Out, o.Out), key, cs())
								break
							}
							c.Count("engine_fitting_pages_identical", 1)
						} else if no.FlushErr == "" && len(no.Out) > int(size) {
							if o.FlushErr == "" {
								if !o.Cont && !no.Cont && len(o.Out) > 0 && strings.HasSuffix(no.Out, o.Out) {
									c.Violate("engine:final-page-dropped-only-exit-value-written", fmt.Sprintf("OutputSize %d: the final page (%d bytes with exit value) does not fit; Flush returned no error and wrote only the exit value %q", size, len(no.Out), o.Out), key, cs())
									break
								}
								c.Violate("engine:truncated-or-altered-instead-of-error", fmt.Sprintf("OutputSize %d: natural page is %d bytes, sized render returned %q", size, len(no.Out), o.Out), key, cs())
								break
							}
							c.Count("engine_overlong_pages_refused", 1)
						}
					}
					if o.Cont != no.Cont {
						break
					}
				}
				d.Close()
				if b != nil {
					b.Cleanup()
				}
			}
		}
	}
}

// c01EchoedInput: the catch page echoes what the client sent ("invalid input: '<input>'"). Inputs that are valid for
// the input format but look like template syntax, format verbs or are long are echoed at every output size from 1
// to 140: whatever Flush hands out must fit (an error instead of a page is fine).
func c01EchoedInput(c *vk.Ctx) {
	if !c.Mine(7) || !c.Want("echo") {
		return
	}
	c.Begin("echo")
	a := app.NewApp()
	a.FlagCount = 1
	a.AddNode(&app.Node{Name: "root", Template: "welcome", Code: []codec.Ins{{Op: codec.MOUT, S1: "go", S2: "1"}, {Op: codec.HALT}, {Op: codec.INCMP, S1: "sub", S2: "1"}}})
	a.AddNode(&app.Node{Name: "sub", Template: "sub page", Code: []codec.Ins{{Op: codec.MOUT, S1: "back", S2: "0"}, {Op: codec.HALT}, {Op: codec.INCMP, S1: "_", S2: "0"}}})
	a.AddNode(&app.Node{Name: "_catch", Template: "that did not work", Code: []codec.Ins{{Op: codec.MOUT, S1: "back", S2: "0"}, {Op: codec.HALT}, {Op: codec.INCMP, S1: "_", S2: "*"}}})
	a.Finalize()
	inputs := []string{"1{{", "a}}{{", "x{{.foo}}", "2{{/*", "7%s%d", "9\\n", "z" + strings.Repeat("{", 30), "q" + strings.Repeat("w", 60), "5 {{ 5", "no"}
	for size := uint32(1); size <= 140; size++ {
		for _, in := range inputs {
			cfg := app.Config{OutputSize: size, FlagCount: 1, SessionId: "echo", Root: "root"}
			ll := app.NewLongLived(a, cfg)
			ll.Request([]byte(""))
			o := ll.Request([]byte(in))
			ll.Close()
			c.EvalN(1, 1)
			c.Count("echoed_input_requests", 1)
			if o.Out != "" {
				c.Count("echoed_input_pages_delivered", 1)
			}
			if o.Panic != "" {
				c.Count("echoed_input_panics(C08)", 1)
				continue
			}
			if uint32(len(o.Out)) > size {
				c.Violate("engine:oversize:echoed-input", fmt.Sprintf("OutputSize %d, input %q refused by the node: Flush hands out %d bytes (%q), error %q", size, in, len(o.Out), o.Out, o.FlushErr), "echo",
					map[string]interface{}{"size": size, "input": in, "app": a.Describe()})
				return
			}
		}
	}
}
