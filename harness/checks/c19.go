package checks

import (
	"bytes"
	"context"
	"encoding/json"
	"fmt"
	"git.defalsify.org/vise.git/state"
	"io"
	"os"
	"os/exec"
	"path/filepath"
	"regexp"
	"runtime"
	"sort"
	"strconv"
	"strings"
	"sync"
	"sync/atomic"
	"time"

	"git.defalsify.org/vise.git/logging"
	"git.defalsify.org/vise.git/vm"

	"verif/harness/app"
	"verif/harness/pgfake"
	"verif/harness/vk"
)

// ---------------------------------------------------------------------------------------------
// C19 — independent sessions served concurrently: race detector + transcript equality + canaries

type c19session struct {
	a     *app.App
	id    int
	cfg   app.Config
	hist  []string
	drv   string
	trans []string // transcript lines
}

func transcriptLine(o *app.Obs) string {
	return fmt.Sprintf("cont=%v exec=%s flush=%s finish=%s panic=%v out=%q", o.Cont, app.ErrClass(o.ExecErr), app.ErrClass(o.FlushErr), app.ErrClass(o.FinishErr), o.Panic != "", o.Out)
}

var c19Switches int64
var c19Callbacks int64
var c19Last int64 = -1

func c19Serve(a *app.App, s *c19session, drv string, shared *c19shared, r *vk.RNG, concurrent bool) []string {
	var d app.Driver
	var b *app.Backend
	mkYield := func(res *app.RecRes) {
		// one application logger with the session id as context key is shared by the functions of all sessions: every
		// line must carry the id of the session that wrote it
		res.OnCall = func(ctx context.Context, sym string) {
			sid, _ := ctx.Value("SessionId").(string)
			var b bytes.Buffer
			c19AppLog.WriteCtxf(ctx, &b, logging.LVL_DEBUG, "external function called", "sym", sym, "session", sid)
			atomic.AddInt64(&c19LogLines, 1)
			if sid != "" && !strings.Contains(b.String(), "x-SessionId="+sid) {
				c19LogMu.Lock()
				if c19LogWrong == "" {
					c19LogWrong = fmt.Sprintf("session %q logged %q", sid, strings.TrimSpace(b.String()))
				}
				c19LogMu.Unlock()
			}
		}
		if !concurrent {
			return
		}
		seed := r.U64()
		var n uint64
		res.Yield = func() {
			atomic.AddInt64(&c19Callbacks, 1)
			if prev := atomic.SwapInt64(&c19Last, int64(s.id)); prev != int64(s.id) && prev >= 0 {
				atomic.AddInt64(&c19Switches, 1)
			}
			n++
			x := (seed + n*0x9E3779B97F4A7C15) >> 59
			switch {
			case x < 12:
				runtime.Gosched()
			case x < 14:
				time.Sleep(time.Microsecond * time.Duration(1+x))
			}
		}
	}
	switch drv {
	case "long":
		ll := app.NewLongLived(a, s.cfg)
		mkYield(ll.Res)
		d = ll
	case "mem":
		b, _ = app.NewBackend("mem")
		pr := app.NewPerRequest(a, s.cfg, b)
		pr.SkipStoredRead = true
		mkYield(pr.Res)
		d = pr
	case "fs":
		b = &app.Backend{Kind: "fs", Dir: shared.dir}
		pr := app.NewPerRequest(a, s.cfg, b)
		pr.SkipStoredRead = true
		mkYield(pr.Res)
		d = pr
	case "pg":
		b = &app.Backend{Kind: "pg", Srv: shared.srv}
		pr := app.NewPerRequest(a, s.cfg, b)
		pr.SkipStoredRead = true
		mkYield(pr.Res)
		d = pr
	}
	var tr []string
	for _, in := range s.hist {
		o := d.Request([]byte(in))
		tr = append(tr, transcriptLine(o))
		if !o.Cont || o.ExecErr != "" || o.FlushErr != "" || o.Panic != "" {
			if o.Panic != "" {
				break
			}
			if !o.Cont {
				break
			}
		}
	}
	d.Close()
	return tr
}

var (
	c19AppLog   = logging.NewVanilla().WithDomain("app").WithLevel(logging.LVL_DEBUG).WithContextKey("SessionId")
	c19LogLines int64
	c19LogMu    sync.Mutex
	c19LogWrong string
)

type c19shared struct {
	dir string
	srv *pgfake.Server
}

var reRaceFrame = regexp.MustCompile(`^\s{2}(\S+)\(\)\s*$`)

type raceReport struct {
	text    string
	frames  []string
	access  []string // first library frame of each of the two racing access stacks
	library bool
}

func parseRaceLogs(glob string) []raceReport {
	files, _ := filepath.Glob(glob)
	var out []raceReport
	for _, f := range files {
		b, err := os.ReadFile(f)
		if err != nil {
			continue
		}
		for _, blk := range strings.Split(string(b), "==================") {
			if !strings.Contains(blk, "WARNING: DATA RACE") {
				continue
			}
			rr := raceReport{text: blk}
			inAccess := false
			haveLib := false
			for _, ln := range strings.Split(blk, "\n") {
				t := strings.TrimSpace(ln)
				if strings.HasPrefix(t, "Write at") || strings.HasPrefix(t, "Read at") || strings.HasPrefix(t, "Previous write at") || strings.HasPrefix(t, "Previous read at") ||
					strings.HasPrefix(t, "Atomic") || strings.HasPrefix(t, "Previous atomic") {
					inAccess, haveLib = true, false
					continue
				}
				if strings.HasPrefix(t, "Goroutine ") {
					inAccess = false
					continue
				}
				if m := reRaceFrame.FindStringSubmatch(ln); m != nil {
					rr.frames = append(rr.frames, m[1])
					if strings.Contains(m[1], "git.defalsify.org/vise.git/") {
						rr.library = true
						if inAccess && !haveLib {
							haveLib = true
							rr.access = append(rr.access, strings.TrimPrefix(m[1], "git.defalsify.org/vise.git/"))
						}
					}
				}
			}
			out = append(out, rr)
		}
	}
	return out
}

func (r raceReport) sig() string {
	a := append([]string{}, r.access...)
	sort.Strings(a)
	return strings.Join(a, "|")
}

func C19() *vk.Check {
	return &vk.Check{
		ID:    "C19",
		Level: "exploration",
		Rule: "binary built with -race (and -tags logtrace, LogWriter discarded, so the logging path is raced too). Rounds of 2..16 goroutines, each serving its own session (own engine, state, cache, recording resource, store handle: long-lived / per-request on own mem store / fs handles on one shared directory / Postgres-fake connections to one server) over one shared application whose bytecode slices are handed out as the same slices with canary-filled spare capacity; interleavings are widened by PRNG Gosched/µs sleeps inside the resource callbacks only. " +
			"Oracle: (1) race reports in GORACE log_path: any report with a library frame = violation, a harness-only report = inconclusive; (2) every session's transcript equals the transcript of the same session served alone, sequentially; (3) canaries/hash of shared data unchanged. " +
			"distinct = hash(round, session transcripts); non-trivial = the round observed at least one cross-session switch between two callbacks.",
		Assumptions:    []string{"only schedules that occurred are covered; the race detector reports only accesses that both executed", "input validators are registered only while no session is being served (documented usage)"},
		MinEvaluations: 20,
		Shards:         func(tier string) int { return 4 },
		NoAddressLimit: true,
		WorkerProcs:    8,
		Env: func(tmp string, shard int) []string {
			return []string{fmt.Sprintf("GORACE=halt_on_error=0 log_path=%s/race.%d", tmp, shard), fmt.Sprintf("VERIF_RACE_GLOB=%s/race.%d.*", tmp, shard)}
		},
		WatchdogQuick:    10 * time.Minute,
		WatchdogThorough: 90 * time.Minute,
		Run:              runC19,
	}
}

var c19Once sync.Once

type c19round struct {
	r        *vk.RNG
	a, a2    *app.App
	drv      string
	shared   *c19shared
	sessions []*c19session
}

// c19Build makes round i from the seed alone (the solo reference process rebuilds the same round): applications,
// sessions, histories, and the process-wide registrations the round's sessions use.
func c19Build(seed uint64, i int) *c19round {
	drivers := []string{"long", "mem", "fs", "pg"}
	key := fmt.Sprintf("round/%d", i)
	r := vk.CaseRNG(seed, key)
	p := c07Profile(r)
	p.Catch = true
	a := app.Generate(r, p)
	drv := drivers[i%len(drivers)]
	k := r.Range(2, 16)
	shared := &c19shared{srv: pgfake.NewServer()}
	shared.dir, _ = os.MkdirTemp("", "vfs19-")
	sessions := make([]*c19session, k)
	for j := range sessions {
		sid := fmt.Sprintf("ses%d", j)
		if (i/4)%2 == 1 {
			// namespaced ids that differ only in their last characters (what a gateway hands out)
			sid = fmt.Sprintf("ussd-gateway-eu-west-1-session-%04d", j)
		}
		cfg := genConfig(r, a, sid)
		if a.Trans["nor"] != nil && r.Chance(1, 2) {
			// sessions of one round are configured with different languages: the same symbols resolve to templates and
			// labels of different lengths for sessions served side by side
			cfg.Language = vk.Pick(r, []string{"nor", "swa", "fra", "eng"})
		}
		// a third of the rounds run with the engine's debug features on (state flag names from the process-wide
		// state.FlagDebugger registry in every state string, engine.SimpleDebug after every execution)
		cfg.Debug = i%3 == 2
		cfg.StoreSession = (i/8)%2 == 1 // the session is also selected on the store handle (db.SetSession)
		// the external functions keep notes in the session's store handle and, on the filesystem store, list them:
		// listings of one session run while other sessions write into the same directory
		cfg.FuncUsesStore = (i/4)%2 == 0
		h := a.History(r, r.Range(3, 14))
		for x := range h {
			if x > 0 && r.Chance(1, 12) {
				h[x] = "#12" // goes through the registered validator
			}
		}
		sessions[j] = &c19session{a: a, id: j, cfg: cfg, hist: h, drv: drv}
	}
	// every fourth round serves two different applications at the same time: process-wide state that one
	// application's session leaves behind shows in the other's pages even where no access races
	var a2 *app.App
	if i%4 == 3 {
		r2 := vk.CaseRNG(seed, key+"/app2")
		a2 = app.Generate(r2, p)
		for j := 1; j < len(sessions); j += 2 {
			s := sessions[j]
			s.a = a2
			s.cfg = genConfig(r2, a2, s.cfg.SessionId)
			s.cfg.Debug = i%3 == 2
			s.hist = a2.History(r2, r2.Range(3, 14))
		}
	}
	// a further input format is registered before the round, while nothing is being served (documented usage:
	// engine.AddValidInput may be called more than once); the sessions of the round use it right away
	custom := fmt.Sprintf("#r%d", i)
	vm.RegisterInputValidator(1000+i, "^"+custom+"x[0-9]+$")
	for _, s := range sessions {
		for x := range s.hist {
			if x > 0 && r.Chance(1, 5) {
				s.hist[x] = custom + "x7"
			}
		}
	}
	if i%3 == 2 {
		// flag names are registered before the sessions start, as the examples do
		for f := uint32(8); f < 8+a.FlagCount; f += 2 { // every other flag stays unregistered
			state.FlagDebugger.Register(f, fmt.Sprintf("USERFLAG%d_%d", f, i))
		}
	}
	return &c19round{r: r, a: a, a2: a2, drv: drv, shared: shared, sessions: sessions}
}

// C19Solo is the fresh-process reference: it rebuilds round i and serves session j alone.
func C19Solo(args []string) {
	logging.LogWriter = io.Discard
	vm.RegisterInputValidator(0, "^#[0-9]+$")
	if len(args) != 3 {
		os.Exit(2)
	}
	seed, _ := strconv.ParseUint(args[0], 10, 64)
	i, _ := strconv.Atoi(args[1])
	j, _ := strconv.Atoi(args[2])
	rd := c19Build(seed, i)
	if j < 0 || j >= len(rd.sessions) {
		os.Exit(2)
	}
	s := rd.sessions[j]
	tr := c19Serve(s.a, s, rd.drv, rd.shared, rd.r.Fork(), false)
	os.RemoveAll(rd.shared.dir)
	json.NewEncoder(os.Stdout).Encode(tr)
}

func runC19(c *vk.Ctx) {
	logging.LogWriter = io.Discard
	c19Once.Do(func() { vm.RegisterInputValidator(0, "^#[0-9]+$") })
	rounds := c.N(48, 1500)
	for i := 0; i < rounds; i++ {
		if !c.Mine(i) {
			continue
		}
		key := fmt.Sprintf("round/%d", i)
		if !c.Want(key) {
			continue
		}
		rd := c19Build(c.Seed, i)
		r, a, a2, drv, k, shared, sessions := rd.r, rd.a, rd.a2, rd.drv, len(rd.sessions), rd.shared, rd.sessions
		if a2 != nil {
			c.Count("rounds_with_two_applications", 1)
		}
		c.Count("input_validators_registered", 1)
		if i%3 == 2 {
			c.Count("rounds_with_debug_features", 1)
		}
		c.Begin(key)
		before := atomic.LoadInt64(&c19Switches)
		atomic.StoreInt64(&c19Last, -1)
		// concurrent
		var wg sync.WaitGroup
		got := make([][]string, k)
		start := make(chan struct{})
		rngs := make([]*vk.RNG, k)
		for j := range sessions {
			rngs[j] = r.Fork()
		}
		for j := range sessions {
			wg.Add(1)
			go func(j int) {
				defer wg.Done()
				<-start
				got[j] = c19Serve(sessions[j].a, sessions[j], drv, shared, rngs[j], true)
			}(j)
		}
		close(start)
		wg.Wait()
		switches := atomic.LoadInt64(&c19Switches) - before
		os.RemoveAll(shared.dir)
		// reference from a fresh process: one or two sessions of the round are served alone by a new process that
		// rebuilds the round from the seed. Whatever the library keeps process-wide (memoised measurements, registries,
		// pools) has seen nothing but that session there, while the in-process reference below inherits what the
		// concurrent phase left behind.
		if exe, err := os.Executable(); err == nil {
			// up to eight sessions (thorough tier: three) per round: first those that were refused a page (a limit that a measurement decides) or were
			// shown browse entries (paged content), then one by position (and one of the second application)
			picked := map[int]bool{}
			var picks []int
			limit := 8
			if !c.Quick() {
				limit = 3 // 1500 rounds: three fresh processes per round are some 4500 in all
			}
			pick := func(j int) {
				if !picked[j] && len(picks) < limit {
					picked[j] = true
					picks = append(picks, j)
				}
			}
			for j := range sessions {
				if strings.Contains(strings.Join(got[j], "\n"), "flush=error") {
					pick(j)
				}
			}
			for j := range sessions {
				if t := strings.Join(got[j], "\n"); strings.Contains(t, "\\n11") || strings.Contains(t, "\\n22") {
					pick(j)
				}
			}
			pick(i % k)
			if a2 != nil {
				pick((i + 1) % k)
			}
			for _, j := range picks {
				out, err := exec.Command(exe, "C19SOLO", fmt.Sprint(c.Seed), fmt.Sprint(i), fmt.Sprint(j)).Output()
				var want []string
				if err != nil || json.Unmarshal(out, &want) != nil {
					c.Inconclusive(fmt.Sprintf("fresh-process reference for round %d session %d: %v %s", i, j, err, trunc2(string(out), 200)))
					continue
				}
				c.Count("sessions_compared_with_a_fresh_process", 1)
				c.Count("requests_compared_with_a_fresh_process", int64(len(want)))
				if strings.Join(want, "\n") != strings.Join(got[j], "\n") {
					step := 0
					for step < len(want) && step < len(got[j]) && want[step] == got[j][step] {
						step++
					}
					w, g := "(none)", "(none)"
					if step < len(want) {
						w = want[step]
					}
					if step < len(got[j]) {
						g = got[j][step]
					}
					c.Violate("transcript-differs-from-fresh-process:"+drv, fmt.Sprintf("round %d session %d step %d: alone in a fresh process %s | concurrent with %d others %s", i, j, step, w, k-1, g), key,
						map[string]interface{}{"driver": drv, "sessions": k, "app": sessions[j].a.Describe(), "history": sessions[j].hist, "config": sessions[j].cfg})
					break
				}
			}
		}
		// sequential reference
		shared2 := &c19shared{srv: pgfake.NewServer()}
		shared2.dir, _ = os.MkdirTemp("", "vfs19-")
		for j := range sessions {
			want := c19Serve(sessions[j].a, sessions[j], drv, shared2, r.Fork(), false)
			if strings.Join(want, "\n") != strings.Join(got[j], "\n") {
				step := 0
				for step < len(want) && step < len(got[j]) && want[step] == got[j][step] {
					step++
				}
				w, g := "(none)", "(none)"
				if step < len(want) {
					w = want[step]
				}
				if step < len(got[j]) {
					g = got[j][step]
				}
				c.Violate("transcript-differs:"+drv, fmt.Sprintf("round %d session %d step %d: alone %s | concurrent %s", i, j, step, w, g), key,
					map[string]interface{}{"driver": drv, "sessions": k, "app": sessions[j].a.Describe(), "history": sessions[j].hist, "config": sessions[j].cfg})
				break
			}
		}
		os.RemoveAll(shared2.dir)
		c19LogMu.Lock()
		wrong := c19LogWrong
		c19LogWrong = ""
		c19LogMu.Unlock()
		if wrong != "" {
			c.Violate("application-log-line-tagged-with-another-session", "one logging.Vanilla with context key SessionId shared by all sessions: "+wrong, key, map[string]interface{}{"driver": drv, "sessions": k})
		}
		if err := a.CheckCanaries(); err != nil {
			c.Violate("shared-data-modified", err.Error(), key, map[string]interface{}{"driver": drv, "app": a.Describe()})
		}
		if a2 != nil {
			if err := a2.CheckCanaries(); err != nil {
				c.Violate("shared-data-modified", err.Error(), key, map[string]interface{}{"driver": drv, "app": a2.Describe()})
			}
		}
		var sb strings.Builder
		for _, t := range got {
			sb.WriteString(strings.Join(t, "\n"))
		}
		c.Eval(vk.Hash64(key, sb.String()), switches > 0)
		c.Count("rounds", 1)
		c.Count("rounds_"+drv, 1)
		c.Count("sessions_served_concurrently", int64(k))
		c.Count("cross_session_switches_observed", switches)
		c.Max("max_goroutines_in_round", int64(k))
		if i < 1 {
			c.Sample(map[string]interface{}{"key": key, "driver": drv, "goroutines": k, "first_session_history": sessions[0].hist, "first_session_transcript": got[0]})
		}
	}
	c.Count("callbacks_with_yield", atomic.LoadInt64(&c19Callbacks))
	c.Count("application_log_lines_checked", atomic.LoadInt64(&c19LogLines))
	// race reports of this worker
	if glob := os.Getenv("VERIF_RACE_GLOB"); glob != "" {
		reps := parseRaceLogs(glob)
		c.Count("race_reports_total", int64(len(reps)))
		seen := map[string]bool{}
		for _, rr := range reps {
			if rr.library {
				sig := "race:" + rr.sig()
				if seen[sig] {
					continue
				}
				seen[sig] = true
				txt := rr.text
				if len(txt) > 5000 {
					txt = txt[:5000]
				}
				c.Violate(sig, "data race with library frames:\n"+txt, "race", map[string]interface{}{"report": txt})
			} else {
				c.Inconclusive("race report whose stacks lie entirely in the harness (monitor defect): " + strings.Join(rr.frames, " < "))
			}
		}
	} else {
		c.Inconclusive("VERIF_RACE_GLOB not set: race log cannot be read")
	}
	if !raceEnabled {
		c.Inconclusive("binary was not built with -race")
	}
}
