package checks

import (
	"context"
	"fmt"
	"reflect"
	"sort"
	"strings"

	"git.defalsify.org/vise.git/cache"
	"git.defalsify.org/vise.git/db"
	memdb "git.defalsify.org/vise.git/db/mem"
	"git.defalsify.org/vise.git/persist"
	"git.defalsify.org/vise.git/state"

	"verif/harness/vk"
)

// ---------------------------------------------------------------------------------------------
// C09 — lock-step reference model of cache.Cache

type refCache struct {
	frames []map[string]string
	limits map[string]uint16
	cap    uint32
	last   string
}

func newRefCache(capacity uint32) *refCache {
	return &refCache{frames: []map[string]string{{}}, limits: map[string]uint16{}, cap: capacity}
}

func (r *refCache) use() uint64 {
	var n uint64
	for _, f := range r.frames {
		for _, v := range f {
			n += uint64(len(v))
		}
	}
	return n
}

func (r *refCache) frameOf(k string) int {
	for i, f := range r.frames {
		if _, ok := f[k]; ok {
			return i
		}
	}
	return -1
}

type c09op struct {
	Op    string `json:"op"`
	Key   string `json:"key,omitempty"`
	Len   int    `json:"len,omitempty"`
	Limit int    `json:"limit,omitempty"`
	Fill  byte   `json:"-"`
}

func (o c09op) String() string {
	switch o.Op {
	case "add":
		return fmt.Sprintf("Add(%s,len=%d,limit=%d)", o.Key, o.Len, o.Limit)
	case "update":
		return fmt.Sprintf("Update(%s,len=%d)", o.Key, o.Len)
	case "get", "reserved":
		return fmt.Sprintf("%s(%s)", o.Op, o.Key)
	case "recap":
		return fmt.Sprintf("WithCacheSize(%d)", o.Len)
	}
	return o.Op
}

func lenClass(n int) string {
	switch {
	case n == 0:
		return "empty"
	case n >= 65536:
		return "ge64k"
	}
	return "lt64k"
}

type cacheSnap struct {
	Size, Use uint32
	Frames    []map[string]string
	Sizes     map[string]uint16
	Last      string
}

func snapCache(ca *cache.Cache) cacheSnap {
	s := cacheSnap{Size: ca.CacheSize, Use: ca.CacheUseSize, Sizes: map[string]uint16{}, Last: ca.LastValue}
	for _, f := range ca.Cache {
		m := map[string]string{}
		for k, v := range f {
			m[k] = v
		}
		s.Frames = append(s.Frames, m)
	}
	for k, v := range ca.Sizes {
		s.Sizes[k] = v
	}
	return s
}

var valPool = map[int]string{}

func valOf(n int, fill byte) string {
	if n <= 0 {
		return ""
	}
	if fill >= 'A' && fill <= 'Z' && (fill-'A')%3 == 0 || fill >= 'a' && fill <= 'z' && (fill-'a')%4 == 1 {
		// a third of the values are multi-byte UTF-8 (limits and sizes count bytes, not characters):
		// exactly n bytes of "å" / "€" / "𝄞", padded with the fill byte
		unit := []string{"å", "€", "𝄞"}[int(fill)%3]
		key := -(n*256 + int(fill))
		if v, ok := valPool[key]; ok {
			return v
		}
		v := strings.Repeat(unit, n/len(unit)) + strings.Repeat(string([]byte{fill}), n%len(unit))
		if len(valPool) < 8192 {
			valPool[key] = v
		}
		return v
	}
	if fill == 0 {
		fill = 'x'
	}
	if n > 64 {
		key := n*256 + int(fill)
		if v, ok := valPool[key]; ok {
			return v
		}
		v := strings.Repeat(string([]byte{fill}), n)
		if len(valPool) < 4096 {
			valPool[key] = v
		}
		return v
	}
	return strings.Repeat(string([]byte{fill}), n)
}

// runC09Seq runs one operation sequence in lock-step. Returns (sig, msg) of the first violation.
func runC09Seq(capacity uint32, ops []c09op, c *vk.Ctx) (string, string) {
	ca := cache.NewCache()
	if capacity > 0 {
		ca = ca.WithCacheSize(capacity)
	}
	ref := newRefCache(capacity)
	for i, op := range ops {
		before := snapCache(ca)
		var rerr error
		var rval string
		var rlim uint16
		var pv interface{}
		var stack string
		val := valOf(op.Len, op.Fill)
		pv, stack = vk.Guard(func() {
			switch op.Op {
			case "add":
				rerr = ca.Add(op.Key, val, uint16(op.Limit))
			case "update":
				rerr = ca.Update(op.Key, val)
			case "get":
				rval, rerr = ca.Get(op.Key)
			case "reserved":
				rlim, rerr = ca.ReservedSize(op.Key)
			case "push":
				rerr = ca.Push()
			case "pop":
				rerr = ca.Pop()
			case "reset":
				ca.Reset()
			case "last":
				rval = ca.Last()
			case "levels":
				rval = fmt.Sprint(ca.Levels())
			case "keys":
				ks := ca.Keys(ca.Levels() - 1)
				sort.Strings(ks)
				rval = strings.Join(ks, ",")
			case "recap":
				// the capacity of a live cache is set again (WithCacheSize on a cache that holds content), possibly
				// below what is in use
				// (called for its effect on the cache the client holds, as persist's own tests do: the result is not
				// reassigned for most lengths)
				if op.Len%3 != 0 {
					ca.WithCacheSize(uint32(op.Len))
				} else {
					ca = ca.WithCacheSize(uint32(op.Len))
				}
			case "flushsave":
				// the cache is held by a persister created WithFlush: after Save it is empty, and still the same cache
				rerr = persist.NewPersister(c09Store()).WithFlush().WithContent(state.NewState(0), ca).Save("s")
			case "saveload":
				// save and load through one persister: nothing changes
				pe := persist.NewPersister(c09Store()).WithContent(state.NewState(0), ca)
				if rerr = pe.Save("s"); rerr == nil {
					rerr = pe.Load("s")
				}
			}
		})
		c.Count("ops_"+op.Op, 1)
		where := fmt.Sprintf("step %d %s", i, op)
		if pv != nil {
			return vk.PanicSig(pv, stack), where + ": panic " + fmt.Sprint(pv)
		}
		lc := lenClass(op.Len)
		// contract decision
		switch op.Op {
		case "add":
			reject := ""
			if ref.frameOf(op.Key) >= 0 {
				reject = "dup"
			} else if op.Limit > 0 && op.Len > op.Limit {
				reject = "overlimit"
			} else if ref.cap > 0 && op.Len > 0 && ref.use()+uint64(op.Len) > uint64(ref.cap) {
				reject = "overcapacity" // an empty value cannot exceed anything, also when a lowered capacity is already exceeded
			}
			if reject != "" {
				c.Count("rejects_expected_"+reject, 1)
				if rerr == nil {
					return "add:accepted-" + reject + ":" + lc, where + ": accepted although the contract says reject (" + reject + ")"
				}
			} else {
				if rerr != nil {
					return "add:spurious-reject:" + lc, where + ": rejected although allowed: " + rerr.Error()
				}
				ref.frames[len(ref.frames)-1][op.Key] = val
				ref.limits[op.Key] = uint16(op.Limit)
				ref.last = val
			}
		case "update":
			reject := ""
			fr := ref.frameOf(op.Key)
			if fr < 0 {
				reject = "undefined"
			} else if lim := ref.limits[op.Key]; lim > 0 && op.Len > int(lim) {
				reject = "overlimit"
			} else if ref.cap > 0 && op.Len > 0 && ref.use()-uint64(len(ref.frames[fr][op.Key]))+uint64(op.Len) > uint64(ref.cap) {
				reject = "overcapacity"
			}
			if reject != "" {
				c.Count("rejects_expected_"+reject, 1)
				if rerr == nil {
					return "update:accepted-" + reject + ":" + lc, where + ": accepted although the contract says reject (" + reject + ")"
				}
			} else {
				if rerr != nil {
					return "update:spurious-reject:" + lc, where + ": rejected although allowed: " + rerr.Error()
				}
				ref.frames[fr][op.Key] = val
			}
		case "get":
			fr := ref.frameOf(op.Key)
			if fr < 0 {
				if rerr == nil {
					return "get:returned-undefined", where + ": returned a value for an undefined key"
				}
			} else if rerr != nil || rval != ref.frames[fr][op.Key] {
				return "get:wrong-value", fmt.Sprintf("%s: got len %d err %v, want len %d", where, len(rval), rerr, len(ref.frames[fr][op.Key]))
			}
		case "reserved":
			if ref.frameOf(op.Key) >= 0 {
				if rerr != nil || rlim != ref.limits[op.Key] {
					return "reserved:wrong-limit", fmt.Sprintf("%s: got %d err %v want %d", where, rlim, rerr, ref.limits[op.Key])
				}
			} // for a dead key the documentation is silent (stale entries): don't-care
		case "push":
			if rerr != nil {
				return "push:error", where + ": " + rerr.Error()
			}
			ref.frames = append(ref.frames, map[string]string{})
		case "pop":
			if rerr != nil {
				// Memory doc: "Fails if already on top level" — a failing pop must change nothing
				if len(ref.frames) > 1 {
					return "pop:error-below-top", where + ": " + rerr.Error()
				}
			} else {
				top := ref.frames[len(ref.frames)-1]
				for k := range top {
					delete(ref.limits, k)
				}
				ref.frames = ref.frames[:len(ref.frames)-1]
				if len(ref.frames) == 0 {
					ref.frames = []map[string]string{{}}
				}
			}
		case "reset":
			for _, f := range ref.frames[1:] {
				for k := range f {
					delete(ref.limits, k)
				}
			}
			ref.frames = ref.frames[:1]
		case "recap":
			ref.cap = uint32(op.Len)
		case "flushsave":
			if rerr != nil {
				return "flushsave:fails", where + ": " + rerr.Error()
			}
			ref.frames = []map[string]string{{}}
			ref.limits = map[string]uint16{}
			ref.last = ""
			if l := ca.LastValue; l != "" {
				return "flushsave:last-value-kept", where + ": the flushed cache still has a last value"
			}
		case "saveload":
			if rerr != nil {
				return "saveload:fails", where + ": " + rerr.Error()
			}
			if !reflect.DeepEqual(before, snapCache(ca)) {
				return "saveload:changed", where + ": saving and loading through one persister changed the cache"
			}
		case "last":
			if rval != ref.last {
				return "last:wrong-value", fmt.Sprintf("%s: got len %d want len %d", where, len(rval), len(ref.last))
			}
			ref.last = ""
		case "levels":
			if rval != fmt.Sprint(len(ref.frames)) {
				return "levels:wrong", fmt.Sprintf("%s: got %s want %d", where, rval, len(ref.frames))
			}
		case "keys":
			var ks []string
			for k := range ref.frames[len(ref.frames)-1] {
				ks = append(ks, k)
			}
			sort.Strings(ks)
			if rval != strings.Join(ks, ",") {
				return "keys:wrong", fmt.Sprintf("%s: got %q want %q", where, rval, strings.Join(ks, ","))
			}
		}
		after := snapCache(ca)
		// a rejected operation leaves the cache unchanged
		if rerr != nil {
			if !reflect.DeepEqual(before, after) {
				return op.Op + ":reject-mutated:" + lc, where + ": returned an error but changed exported fields"
			}
			continue
		}
		// post-state equals the model
		if len(after.Frames) != len(ref.frames) {
			return op.Op + ":frames-mismatch", fmt.Sprintf("%s: %d frames, model %d", where, len(after.Frames), len(ref.frames))
		}
		var sum uint64
		seen := map[string]int{}
		for fi, f := range after.Frames {
			if !reflect.DeepEqual(f, ref.frames[fi]) {
				return op.Op + ":content-mismatch:" + lc, fmt.Sprintf("%s: frame %d keys/values differ from the model", where, fi)
			}
			for k, v := range f {
				sum += uint64(len(v))
				if pf, dup := seen[k]; dup {
					return op.Op + ":dup-scope", fmt.Sprintf("%s: key %s in frames %d and %d", where, k, pf, fi)
				}
				seen[k] = fi
				lim, ok := after.Sizes[k]
				if !ok {
					return op.Op + ":live-symbol-without-limit", fmt.Sprintf("%s: key %s has no Sizes entry", where, k)
				}
				if lim != ref.limits[k] {
					return op.Op + ":limit-mismatch", fmt.Sprintf("%s: key %s limit %d model %d", where, k, lim, ref.limits[k])
				}
				if lim > 0 && len(v) > int(lim) {
					return op.Op + ":overlimit-stored:" + lenClass(len(v)), fmt.Sprintf("%s: key %s holds %d bytes, limit %d", where, k, len(v), lim)
				}
			}
		}
		if uint64(after.Use) != sum {
			return op.Op + ":use-mismatch:" + lc, fmt.Sprintf("%s: CacheUseSize %d, sum of values %d", where, after.Use, sum)
		}
		if after.Size != ref.cap {
			return op.Op + ":capacity-changed", where
		}
		var sumBefore uint64
		for _, f := range before.Frames {
			for _, v := range f {
				sumBefore += uint64(len(v))
			}
		}
		// content may exceed a capacity that was lowered afterwards, but no operation may grow it beyond the capacity
		if ref.cap > 0 && sum > uint64(ref.cap) && sum > sumBefore {
			return op.Op + ":over-capacity:" + lc, fmt.Sprintf("%s: holds %d bytes (%d before), capacity %d", where, sum, sumBefore, ref.cap)
		}
		for k := range after.Sizes {
			if _, live := seen[k]; !live {
				c.Count("stale_limit_entries_seen(dont-care)", 1)
				break
			}
		}
	}
	return "", ""
}

func c09Store() db.Db {
	m := memdb.NewMemDb()
	m.Connect(context.Background(), "")
	return m
}

var c09Keys = []string{"a", "b", "c", "dd", "e_e"}

func genC09Seq(r *vk.RNG) (uint32, []c09op) {
	limits := []int{0, 0, 1, 2, 5, 10, 100, 255, 256, 1000, 65535}
	limit := func() int {
		if r.Chance(1, 6) {
			return r.Intn(65536)
		}
		return vk.Pick(r, limits)
	}
	var capacity uint32
	switch r.Intn(6) {
	case 0:
		capacity = 0
	case 1:
		capacity = 1
	case 2:
		capacity = uint32(r.Range(2, 40))
	case 3:
		capacity = uint32(r.Range(41, 2000))
	case 4:
		capacity = uint32(r.Range(60000, 140000))
	case 5:
		capacity = 0
	}
	n := r.Range(3, 60)
	ops := make([]c09op, 0, n)
	lastLimit := map[string]int{}
	big := 0
	for i := 0; i < n; i++ {
		k := vk.Pick(r, c09Keys[:r.Range(3, 5)])
		mkLen := func(lim int) int {
			switch r.Intn(12) {
			case 0:
				return 0
			case 1:
				return 1
			case 2:
				if lim > 0 {
					return lim
				}
			case 3:
				if lim > 0 {
					return lim + 1
				}
			case 4:
				if lim > 1 {
					return lim - 1
				}
			case 5:
				if big < 6 {
					big++
					return vk.Pick(r, []int{65535, 65536, 65537, 65536 + lim, 65536 + lim + 1, 70000, 131072 + lim})
				}
			case 6:
				if capacity > 0 && capacity < 70000 {
					if v := int(capacity) - r.Intn(3); v >= 0 {
						return v
					}
				}
			case 7:
				return vk.Pick(r, []int{255, 256})
			}
			return r.Intn(30)
		}
		switch x := r.Intn(100); {
		case x < 28:
			lim := limit()
			lastLimit[k] = lim
			ops = append(ops, c09op{Op: "add", Key: k, Len: mkLen(lim), Limit: lim, Fill: byte('a' + i%26)})
		case x < 52:
			ops = append(ops, c09op{Op: "update", Key: k, Len: mkLen(lastLimit[k]), Fill: byte('A' + i%26)})
		case x < 62:
			ops = append(ops, c09op{Op: "get", Key: k})
		case x < 72:
			ops = append(ops, c09op{Op: "push"})
		case x < 82:
			ops = append(ops, c09op{Op: "pop"})
		case x < 86:
			ops = append(ops, c09op{Op: "reset"})
		case x < 90:
			ops = append(ops, c09op{Op: "last"})
		case x < 94:
			ops = append(ops, c09op{Op: "reserved", Key: k})
		case x < 96:
			ops = append(ops, c09op{Op: "levels"})
		case x < 98:
			ops = append(ops, c09op{Op: "keys"})
		case x < 99:
			if r.Chance(1, 2) {
				nc := vk.Pick(r, []int{0, 1, 5, 20, 64, 1000, 70000})
				ops = append(ops, c09op{Op: "recap", Len: nc})
			} else {
				ops = append(ops, c09op{Op: "flushsave"})
			}
		default:
			ops = append(ops, c09op{Op: "saveload"})
		}
	}
	return capacity, ops
}

func seqSig(capacity uint32, ops []c09op) (uint64, bool) {
	var sb strings.Builder
	fmt.Fprintf(&sb, "%d;", capacity)
	mut := 0
	for _, o := range ops {
		sb.WriteString(o.String())
		sb.WriteByte(';')
		if o.Op == "add" || o.Op == "update" || o.Op == "pop" || o.Op == "reset" {
			mut++
		}
	}
	return vk.Hash64(sb.String()), mut >= 2
}

// exhaustive alphabet: two configurations
var c09Alpha = []c09op{
	{Op: "add", Key: "a", Len: 3, Limit: 4, Fill: 'p'},
	{Op: "add", Key: "a", Len: 5, Limit: 4, Fill: 'q'},
	{Op: "add", Key: "b", Len: 6, Limit: 0, Fill: 'r'},
	{Op: "update", Key: "a", Len: 1, Fill: 's'},
	{Op: "update", Key: "a", Len: 0},
	{Op: "update", Key: "b", Len: 9, Fill: 't'},
	{Op: "push"},
	{Op: "pop"},
	{Op: "reset"},
}

func C09() *vk.Check {
	return &vk.Check{
		ID:    "C09",
		Level: "exploration",
		Rule: "lock-step of cache.Cache against a reference cache (list of maps + limits + capacity). Cases: (1) every operation sequence of length<=5 (quick) / <=6 (thorough) over a 9-operation alphabet, for capacity 0 and capacity 10, enumerated exhaustively (distinct by construction); (random sequences also hand the cache to a persister: a flushing Save must leave it empty with its capacity, a Save/Load round trip through one persister must change nothing; the capacity of the live cache is set again, also below what is in use: nothing may grow the content beyond the capacity in force); " +
			"(2) PRNG sequences of 3..60 ops over Add/Update/Get/Push/Pop/Reset/Last/ReservedSize/Levels/Keys, 3-5 keys, lengths in BYTES {0,1,limit-1,limit,limit+1,255,256,65535..65537,65536+limit,70000,131072+limit,random}, a third of the values made of multi-byte UTF-8 characters, limits 0..65535, capacities {0,1,small,medium,~64k..140k}. " +
			"distinct = hash of (capacity, full op list); non-trivial = at least two mutating ops (add/update/pop/reset).",
		Assumptions: []string{
			"the accept/reject decision of the model follows the cache.Memory interface contract ('must fail if')",
			"ReservedSize of a symbol that is no longer live, and Pop on the single top frame failing vs. clearing it, are don't-care",
		},
		MinEvaluations: 1000,
		Shards:         func(tier string) int { return 16 },
		Run:            runC09,
	}
}

func runC09(c *vk.Ctx) {
	// (1) exhaustive part: partition by first op and capacity
	maxLen := c.N(5, 6)
	A := len(c09Alpha)
	idx := 0
	for _, capacity := range []uint32{0, 10} {
		for first := 0; first < A; first++ {
			mine := c.Mine(idx)
			idx++
			if !mine {
				continue
			}
			// enumerate all sequences starting with `first` of length 1..maxLen
			seq := make([]int, 1, maxLen)
			seq[0] = first
			var rec func()
			var count int64
			rec = func() {
				key := fmt.Sprintf("exh/%d/%v", capacity, seq)
				if c.Want(key) {
					ops := make([]c09op, len(seq))
					for i, s := range seq {
						ops[i] = c09Alpha[s]
					}
					if c.Only != "" {
						c.Begin(key)
					}
					sig, msg := runC09Seq(capacity, ops, c)
					count++
					if sig != "" {
						c.Violate(sig, msg, key, map[string]interface{}{"capacity": capacity, "ops": opStrings(ops)})
					}
				}
				if len(seq) < maxLen {
					for nx := 0; nx < A; nx++ {
						seq = append(seq, nx)
						rec()
						seq = seq[:len(seq)-1]
					}
				}
			}
			c.Begin(fmt.Sprintf("exh/%d/[%d ...]", capacity, first))
			rec()
			c.EvalN(count, count)
			c.Count("exhaustive_sequences", count)
		}
	}
	// (2) PRNG sequences
	n := c.N(40000, 2000000)
	for i := 0; i < n; i++ {
		if !c.Mine(i) {
			continue
		}
		key := fmt.Sprintf("rnd/%d", i)
		if !c.Want(key) {
			continue
		}
		r := c.RNG(key)
		capacity, ops := genC09Seq(r)
		c.Begin(key)
		sig, msg := runC09Seq(capacity, ops, c)
		h, nt := seqSig(capacity, ops)
		c.Eval(h, nt)
		c.Count("random_sequences", 1)
		if i < 2 {
			c.Sample(map[string]interface{}{"key": key, "capacity": capacity, "ops": opStrings(ops)})
		}
		if sig != "" {
			c.Violate(sig, msg, key, map[string]interface{}{"capacity": capacity, "ops": opStrings(ops)})
		}
	}
}

func opStrings(ops []c09op) []string {
	s := make([]string, len(ops))
	for i, o := range ops {
		s[i] = o.String()
	}
	return s
}
