package checks

import (
	"bytes"
	"context"
	"fmt"
	"sort"
	"strings"

	"git.defalsify.org/vise.git/db"
	"git.defalsify.org/vise.git/db/postgres"
	"git.defalsify.org/vise.git/lang"

	"verif/harness/pgfake"
	"verif/harness/vk"
)

// ---------------------------------------------------------------------------------------------
// C13 — fault enumeration on the Postgres backend against the in-process fake

const (
	opPutK1 = iota
	opPutK2
	opGetK1
	opGetK2
	opGetNever
	opGetLangMiss // language set, no translation stored: two-query path
	opGetLangHit  // language set, translation stored: one-query path
	opStart
	opStop
	opAbort
	opPutNoType // Put while no data type is selected on the store: refused, and nothing may be left behind
	opSameConn  // the pool is handed to the live store once more (WithConnection, as a reconnect hook would): no effect
	c13NOps
)

var c13OpName = []string{"Put(k1)", "Put(k2)", "Get(k1)", "Get(k2)", "Get(never)", "GetLang(miss)", "GetLang(hit)", "Start", "Stop", "Abort", "Put(no type selected)", "WithConnection(same pool)"}

type c13run struct {
	sig, msg string
	illegal  bool
	prims    int
	hit      int
	events   int
}

var c13Nor = func() *lang.Language { l, _ := lang.LanguageFromCode("nor"); return &l }()

func dbKey(typ uint8, sid, key, lng string) []byte {
	b := []byte{typ}
	if typ > db.DATATYPE_STATICLOAD && sid != "" {
		b = append(b, []byte(sid+".")...)
	}
	b = append(b, []byte(key)...)
	if lng != "" {
		b = append(b, []byte("_"+lng)...)
	}
	return b
}

// acceptable values of a key: nil entry means "absent"
type c13cert map[string][][]byte

func (c c13cert) set(k string, v []byte) { c[k] = [][]byte{v} }
func (c c13cert) widen(k string, v []byte) {
	for _, x := range c[k] {
		if bytes.Equal(x, v) && (x == nil) == (v == nil) {
			return
		}
	}
	c[k] = append(c[k], v)
}
func (c c13cert) ok(k string, v []byte, present bool) bool {
	l, known := c[k]
	if !known {
		return !present
	}
	for _, x := range l {
		if x == nil && !present {
			return true
		}
		if x != nil && present && bytes.Equal(x, v) {
			return true
		}
	}
	return false
}

// execC13 runs one (sequence, fault set) against a fresh store + fake.
func execC13(seq []int, faults []int, keepLog bool) (res c13run, conn *pgfake.Conn) {
	ctx := context.Background()
	srv := pgfake.NewServer()
	srv.Seed(dbKey(db.DATATYPE_TEMPLATE, "", "tplmiss", ""), []byte("default-miss"))
	srv.Seed(dbKey(db.DATATYPE_TEMPLATE, "", "tplhit", ""), []byte("default-hit"))
	srv.Seed(dbKey(db.DATATYPE_TEMPLATE, "", "tplhit", "nor"), []byte("norsk-hit"))
	conn = srv.Connect()
	conn.KeepLog = keepLog
	conn.FailAt(faults...)
	// every other fault set fails with an error that wraps context.Canceled
	// ... a quarter with the server's own error values (*pgconn.PgError) for conditions a client is tempted to handle
	// specially: serialization failure, deadlock, cancelled query, lost connection
	if len(faults) > 0 {
		k := len(seq)*31 + len(faults)*7 + faults[0]
		switch k % 4 {
		case 0, 2:
			conn.CancelIdentity = true
		case 1:
			conn.SQLState = []string{"40001", "40P01", "57014", "08006"}[(k/4)%4]
		}
	}
	store := postgres.NewPgDb().WithConnection(conn).WithSchema("vvise")
	store.SetSession("ses")
	store.SetPrefix(db.DATATYPE_USERDATA)

	cert := c13cert{}
	k1 := string(dbKey(db.DATATYPE_USERDATA, "ses", "k1", ""))
	k2 := string(dbKey(db.DATATYPE_USERDATA, "ses", "k2", ""))
	txOpen, txClean := false, true
	stopped := false
	txPending := map[string][]byte{} // successful puts of the open client transaction
	txTouched := map[string][][]byte{}
	nval := 0
	faultKinds := func() string {
		if len(conn.FaultKinds) == 0 {
			if len(faults) == 0 {
				return "nofault"
			}
			return "fault-not-yet-fired"
		}
		return strings.Join(conn.FaultKinds, "+")
	}
	txState := func() string {
		if !txOpen {
			return "no-client-tx"
		}
		if txClean {
			return "client-tx-clean"
		}
		return "client-tx-dirty"
	}
	fail := func(symptom string, op int, msg string) {
		if res.sig == "" {
			name := "Close"
			if op >= 0 {
				name = c13OpName[op]
			}
			res.sig = symptom + ":" + name + ":" + faultKinds() + ":" + txState()
			if stopped {
				// the history contains a completed Start..Stop block: the store stays in multi-instruction mode
				// (KNOWN_FINDINGS: pinned by TestPostgresTxStartStop); the signature names symptom and operation only
				res.sig = "after-stop:" + symptom + ":" + name
			}
			res.msg = msg
		}
	}
	endTx := func(committedOK bool) {
		// committedOK: the client was told the transaction's writes are durable
		for k, vals := range txTouched {
			if txClean && committedOK {
				if v, ok := txPending[k]; ok {
					cert.set(k, v)
				}
			} else if txClean && !committedOK {
				// nothing of a clean, aborted/failed transaction may become visible — except when the commit itself
				// was the faulted step, where the fake discards: still "old value"
			} else {
				// dirty transaction: outcome of its writes is don't-care
				if _, known := cert[k]; !known {
					cert[k] = [][]byte{nil}
				}
				for _, v := range vals {
					cert.widen(k, v)
				}
			}
		}
		txOpen, txClean = false, true
		txPending = map[string][]byte{}
		txTouched = map[string][][]byte{}
	}

	for i, op := range seq {
		// client-side legality
		switch op {
		case opStart:
			if txOpen {
				res.illegal = true
				return
			}
		case opStop, opAbort:
			if !txOpen {
				res.illegal = true
				return
			}
		}
		hitBefore := conn.FaultsHit
		var err error
		var got []byte
		var val []byte
		var key string
		pv, stack := vk.Guard(func() {
			switch op {
			case opPutK1, opPutK2:
				key = k1
				kk := "k1"
				if op == opPutK2 {
					key, kk = k2, "k2"
				}
				nval++
				val = []byte(fmt.Sprintf("v%d@%d", nval, i))
				err = store.Put(ctx, []byte(kk), val)
			case opPutNoType:
				store.SetPrefix(db.DATATYPE_UNKNOWN)
				err = store.Put(ctx, []byte("k1"), []byte("never stored"))
				store.SetPrefix(db.DATATYPE_USERDATA)
			case opGetK1:
				key = k1
				got, err = store.Get(ctx, []byte("k1"))
			case opGetK2:
				key = k2
				got, err = store.Get(ctx, []byte("k2"))
			case opGetNever:
				got, err = store.Get(ctx, []byte("never"))
			case opGetLangMiss, opGetLangHit:
				store.SetPrefix(db.DATATYPE_TEMPLATE)
				store.SetLanguage(c13Nor)
				if op == opGetLangMiss {
					got, err = store.Get(ctx, []byte("tplmiss"))
				} else {
					got, err = store.Get(ctx, []byte("tplhit"))
				}
				store.SetLanguage(nil)
				store.SetPrefix(db.DATATYPE_USERDATA)
			case opStart:
				err = store.Start(ctx)
			case opStop:
				err = store.Stop(ctx)
			case opAbort:
				store.Abort(ctx)
			case opSameConn:
				store.WithConnection(conn)
			}
		})
		res.events++
		if pv != nil {
			fail(vk.PanicSig(pv, stack), op, fmt.Sprintf("step %d %s panics: %v", i, c13OpName[op], pv))
			return
		}
		fired := conn.FaultsHit > hitBefore
		inDirty := txOpen && !txClean
		if fired {
			if err == nil && op != opAbort {
				fail("fault-not-reported", op, fmt.Sprintf("step %d %s: a primitive call failed during the operation but it returned nil", i, c13OpName[op]))
				return
			}
		}
		// bookkeeping + expectations
		switch op {
		case opPutNoType:
			// refused before anything is sent to the database: an error, and neither the client's transaction nor
			// the store is touched (a transaction it began would show up as never ended, or in the next Start)
			if err == nil {
				fail("refused-put-accepted", op, fmt.Sprintf("step %d: Put with no data type selected returns nil", i))
				return
			}
		case opPutK1, opPutK2:
			if txOpen {
				txTouched[key] = append(txTouched[key], val)
			}
			if err == nil {
				if txOpen {
					txPending[key] = val
				} else {
					cert.set(key, val)
				}
			} else {
				if !fired && !inDirty {
					fail("spurious-error", op, fmt.Sprintf("step %d %s fails without a fault in it: %v", i, c13OpName[op], err))
					return
				}
				if txOpen {
					txClean = false
				} else {
					// a failed single write: must not be visible... the statement failed, so old value stays; but a
					// failed commit is indistinguishable for the client: accept either
					if _, known := cert[key]; !known {
						cert[key] = [][]byte{nil}
					}
					if fired {
						cert.widen(key, val)
					}
				}
			}
		case opGetK1, opGetK2:
			if err != nil {
				notFound := db.IsNotFound(err)
				expectAbsent := false
				if txOpen && txClean {
					if _, ok := txPending[key]; !ok {
						expectAbsent = cert.ok(key, nil, false)
					}
				} else {
					expectAbsent = cert.ok(key, nil, false)
				}
				if notFound && expectAbsent && !fired {
					// legitimately not found
				} else if !fired && !inDirty {
					fail("spurious-error", op, fmt.Sprintf("step %d %s fails without a fault in it: %v", i, c13OpName[op], err))
					return
				}
				if txOpen {
					txClean = false
				}
			} else if !inDirty {
				okv := false
				if txOpen {
					if v, ok := txPending[key]; ok {
						okv = bytes.Equal(v, got)
					} else {
						okv = cert.ok(key, got, true)
					}
				} else {
					okv = cert.ok(key, got, true)
				}
				if !okv {
					fail("wrong-value", op, fmt.Sprintf("step %d %s returned %q, acceptable %q", i, c13OpName[op], got, cert[key]))
					return
				}
			}
		case opGetNever:
			if err == nil {
				fail("wrong-value", op, fmt.Sprintf("step %d Get(never) returned %q", i, got))
				return
			}
			if !db.IsNotFound(err) && !fired && !inDirty {
				fail("spurious-error", op, fmt.Sprintf("step %d Get(never): error is not recognisable as not-found: %v", i, err))
				return
			}
			if txOpen {
				txClean = false
			}
		case opGetLangMiss, opGetLangHit:
			want := "default-miss"
			if op == opGetLangHit {
				want = "norsk-hit"
			}
			if err != nil {
				if !fired && !inDirty {
					fail("spurious-error", op, fmt.Sprintf("step %d %s fails without a fault in it: %v", i, c13OpName[op], err))
					return
				}
				if txOpen {
					txClean = false
				}
			} else if string(got) != want {
				fail("wrong-value", op, fmt.Sprintf("step %d %s returned %q want %q", i, c13OpName[op], got, want))
				return
			}
		case opStart:
			if err == nil {
				txOpen, txClean = true, true
			} else if !fired {
				fail("spurious-error", op, fmt.Sprintf("step %d Start fails without a fault in it: %v", i, err))
				return
			}
		case opStop:
			if err != nil && !fired && txClean {
				fail("spurious-error", op, fmt.Sprintf("step %d Stop of a clean transaction fails without a fault in it: %v", i, err))
				return
			}
			wasClean := txClean
			endTx(err == nil)
			// the writes of a clean explicit transaction are visible at Stop, to every connection: checked now,
			// before the recorded after-Stop behaviour of the store can blur it
			if wasClean {
				com := srv.Committed()
				for _, k := range []string{k1, k2} {
					v, present := com[k]
					if !cert.ok(k, v, present) {
						fail("explicit-transaction-not-published-at-stop", op, fmt.Sprintf("step %d Stop returned %v; committed %q=%q (present=%v), acceptable %q", i, err, k[1:], v, present, cert[k]))
						return
					}
				}
			}
			stopped = true
		case opAbort:
			wasClean := txClean
			endTx(false)
			if wasClean {
				com := srv.Committed()
				for _, k := range []string{k1, k2} {
					v, present := com[k]
					if !cert.ok(k, v, present) {
						fail("aborted-transaction-left-writes", op, fmt.Sprintf("step %d Abort; committed %q=%q (present=%v), acceptable %q", i, k[1:], v, present, cert[k]))
						return
					}
				}
			}
		}
	}
	// quiescence: Close
	var cerr error
	hitBefore := conn.FaultsHit
	pv, stack := vk.Guard(func() { cerr = store.Close(ctx) })
	if pv != nil {
		fail(vk.PanicSig(pv, stack), -1, fmt.Sprintf("Close panics: %v", pv))
		return
	}
	if txOpen {
		if conn.FaultsHit > hitBefore && cerr == nil {
			fail("fault-not-reported", -1, "Close committed the open transaction, the commit failed, Close returned nil")
			return
		}
		endTx(cerr == nil)
	} else if cerr != nil && conn.FaultsHit == hitBefore {
		fail("spurious-error", -1, "Close fails without a fault in it: "+cerr.Error())
		return
	}
	res.prims = conn.Seq()
	res.hit = conn.FaultsHit
	if open := conn.OpenTx(); len(open) > 0 {
		fail("tx-never-ended", -1, fmt.Sprintf("transactions %v were begun and neither committed nor rolled back by Close", open))
		return
	}
	if conn.UseAfterEnd > 0 {
		fail("tx-used-after-end", -1, "a statement was issued on a transaction that was already committed/rolled back")
		return
	}
	if len(conn.Unmodelled) > 0 {
		res.sig = "unmodelled"
		res.msg = strings.Join(conn.Unmodelled, "; ")
		return
	}
	com := srv.Committed()
	for _, k := range []string{k1, k2} {
		v, present := com[k]
		if !cert.ok(k, v, present) {
			fail("committed-mismatch", -1, fmt.Sprintf("at quiescence key %q holds %q (present=%v), acceptable %q", k[1:], v, present, cert[k]))
			return
		}
	}
	return
}

func seqString(seq []int) string {
	s := make([]string, len(seq))
	for i, o := range seq {
		s[i] = c13OpName[o]
	}
	return strings.Join(s, " ")
}

func C13() *vk.Check {
	return &vk.Check{
		ID:    "C13",
		Level: "fault_enumeration",
		Rule: "exhaustive enumeration of client-legal operation sequences over {Put k1, Put k2, Get k1, Get k2, Get never-written, Get with language (translation missing: two queries / present: one query), Start, Stop, Abort} of length<=4 (quick) / <=5 exhaustive plus 400k PRNG sequences of length 6..8 (thorough), each closed by Close, x every choice of zero, one or two failing primitive driver calls (begin, exec, query, row fetch (Next), Scan, commit, rollback) among those the sequence makes. " +
			"Start only when the client has no transaction, Stop/Abort only inside the client's own transaction. distinct = (sequence, fault set), distinct by construction; non-trivial = at least one fault fired or the sequence contains an explicit transaction.",
		Assumptions: []string{
			"trusted base: pgfake's model of Postgres/pgx (aborted-transaction state, ErrTxCommitRollback, ErrTxClosed, conn busy while a result set is open)",
			"a transaction in which an operation returned an error (fault or not-found) is 'dirty': the fate of its writes is don't-care; redundant Commit/Rollback on a finished transaction is harmless in pgx and only counted",
			"a failed implicit single Put may or may not have taken effect (failed commit is indistinguishable to the client)",
			"a failing Rollback follows pgx: the transaction is closed and its writes are gone after any Rollback attempt; Abort has no way to report it",
		},
		MinEvaluations: 1000,
		Shards:         func(string) int { return 16 },
		Run:            runC13,
	}
}

func runC13(c *vk.Ctx) {
	maxLen := c.N(4, 5)
	var evals, nontrivial, illegal int64
	idx := 0
	runAll := func(seq []int, key string) {
		hasTx := false
		for _, o := range seq {
			if o == opStart {
				hasTx = true
			}
		}
		report := func(r c13run, faults []int) {
			evals++
			if r.hit > 0 || hasTx {
				nontrivial++
			}
			c.Count("operations_executed", int64(r.events))
			if r.sig == "unmodelled" {
				c.Inconclusive("pgfake met an unmodelled driver call: " + r.msg)
				return
			}
			if r.sig != "" {
				_, conn := execC13(seq, faults, true)
				var log []string
				for _, e := range conn.Log {
					f := ""
					if e.Failed {
						f = " FAILED"
					}
					log = append(log, fmt.Sprintf("#%d %s tx%d%s", e.Seq, e.Kind, e.Tx, f))
				}
				c.Violate(r.sig, r.msg, key, map[string]interface{}{"sequence": seqString(seq) + " Close", "failing_primitives": faults, "driver_log": log})
			}
		}
		r0, _ := execC13(seq, nil, false)
		if r0.illegal {
			illegal++
			return
		}
		report(r0, nil)
		c.Max("max_primitives_in_a_sequence", int64(r0.prims))
		for i := 0; i < r0.prims; i++ {
			r1, _ := execC13(seq, []int{i}, false)
			if r1.illegal {
				illegal++
				continue
			}
			report(r1, []int{i})
			c.Count("single_fault_runs", 1)
			for j := i + 1; j < r1.prims; j++ {
				r2, _ := execC13(seq, []int{i, j}, false)
				if r2.illegal {
					illegal++
					continue
				}
				if r2.hit < 2 {
					continue
				}
				report(r2, []int{i, j})
				c.Count("double_fault_runs", 1)
			}
		}
	}
	// exhaustive sequences, partitioned by first two ops
	for a := 0; a < c13NOps; a++ {
		for b := -1; b < c13NOps; b++ {
			mine := c.Mine(idx)
			idx++
			if !mine {
				continue
			}
			var seq []int
			if b < 0 {
				seq = []int{a}
			} else {
				seq = []int{a, b}
			}
			key := fmt.Sprintf("exh/%v", seq)
			c.Begin(key)
			var rec func()
			rec = func() {
				k := fmt.Sprintf("exh/%v", seq)
				if c.Want(k) {
					runAll(append([]int{}, seq...), k)
				}
				if b >= 0 && len(seq) < maxLen {
					for nx := 0; nx < c13NOps; nx++ {
						seq = append(seq, nx)
						rec()
						seq = seq[:len(seq)-1]
					}
				}
			}
			rec()
		}
	}
	c.SetExhaustive(true)
	// thorough: longer PRNG sequences
	if !c.Quick() {
		n := 400000
		for i := 0; i < n; i++ {
			if !c.Mine(i) {
				continue
			}
			key := fmt.Sprintf("rnd/%d", i)
			if !c.Want(key) {
				continue
			}
			r := c.RNG(key)
			l := r.Range(6, 8)
			seq := make([]int, 0, l)
			open := false
			for len(seq) < l {
				o := r.Intn(c13NOps)
				if o == opStart && open || (o == opStop || o == opAbort) && !open {
					continue
				}
				if o == opStart {
					open = true
				}
				if o == opStop || o == opAbort {
					open = false
				}
				seq = append(seq, o)
			}
			c.Begin(key)
			runAll(seq, key)
		}
	}
	c.EvalN(evals, nontrivial)
	c.Count("illegal_for_client_skipped", illegal)
	if c.Shard == 0 {
		// an actual case of this run, with the driver call log the monitor saw
		seq := []int{opStart, opPutK1, opGetNever, opStop}
		_, conn := execC13(seq, []int{2}, true)
		var log []string
		for _, e := range conn.Log {
			f := ""
			if e.Failed {
				f = " FAILED"
			}
			log = append(log, fmt.Sprintf("#%d %s tx%d%s", e.Seq, e.Kind, e.Tx, f))
		}
		c.Sample(map[string]interface{}{"sequence": seqString(seq) + " Close", "failing_primitives": []int{2}, "driver_log": log})
	}
	_ = sort.Ints
}
