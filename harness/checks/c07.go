package checks

import (
	"fmt"
	"git.defalsify.org/vise.git/state"
	"os"
	"strings"
	"unicode/utf8"

	"verif/harness/app"
	"verif/harness/codec"
	"verif/harness/vk"
)

// ---------------------------------------------------------------------------------------------
// C07 — persisted (engine per request) vs long-lived engine: pure differential

var c07Backends = []string{"mem", "fs", "fsbin", "pg"}

func genConfig(r *vk.RNG, a *app.App, sid string) app.Config {
	cfg := app.Config{FlagCount: a.FlagCount, SessionId: sid, Root: a.Root}
	switch r.Intn(6) {
	case 0:
		cfg.OutputSize = 0
	case 1:
		cfg.OutputSize = uint32(r.Range(20, 60))
	case 2:
		cfg.OutputSize = uint32(r.Range(60, 120))
	default:
		cfg.OutputSize = uint32(r.Range(120, 400))
	}
	switch r.Intn(5) {
	case 0:
		cfg.CacheSize = uint32(r.Range(10, 80))
	case 1:
		cfg.CacheSize = uint32(r.Range(80, 400))
	}
	if r.Chance(1, 6) {
		cfg.MenuSeparator = vk.Pick(r, []string{": ", ")", " - ", " → ", "・・"})
	}
	return cfg
}

// genConfigDiff adds the engine options that the differential checks may vary (both drivers get the same).
func genConfigDiff(r *vk.RNG, a *app.App, sid string) app.Config {
	cfg := genConfig(r, a, sid)
	cfg.ResetOnEmptyInput = r.Chance(1, 5)
	cfg.PersisterContent = r.Chance(1, 4)
	cfg.Debug = r.Chance(1, 6)
	cfg.StoreSession = r.Chance(1, 3)
	cfg.FuncUsesStore = r.Chance(1, 4)
	if cfg.StoreSession && r.Chance(1, 3) {
		// a provisional session id: with the session also selected on the handle the record's file name is
		// "@tmp-<id>.tmp-<id>", which looks like one of the store's own temporary files to a careless sweep
		cfg.SessionId = "tmp-" + cfg.SessionId
	}
	return cfg
}

// diffComponent names what differs between two outputs.
func diffComponent(a, b string) string {
	al, bl := strings.Split(a, "\n"), strings.Split(b, "\n")
	if len(al) > 0 && len(bl) > 0 && al[0] != bl[0] {
		isErr := func(s string) bool {
			return strings.HasPrefix(s, "invalid input") || strings.HasPrefix(s, "error ") || strings.Contains(s, "error")
		}
		if isErr(al[0]) != isErr(bl[0]) {
			return "error-prefix"
		}
	}
	if len(al) != len(bl) {
		return "line-count"
	}
	return "content"
}

func C07() *vk.Check {
	return &vk.Check{
		ID:    "C07",
		Level: "exploration",
		Rule: "differential, no model: the same generated application, configuration and input history are served (a) by one long-lived engine and (b) by a fresh store handle + persister + engine per request (Exec, Flush, Finish) on each backend (mem, fs, fs binary-key, Postgres driver fake); outputs, continue flags and error classes are compared request by request up to the end of the session (also for two sessions whose requests alternate on the same store), and after every save the stored snapshot is re-read through a fresh handle and must equal the live state/cache field by field. " +
			"distinct = hash(app, config, history); non-trivial = the history reached at least 3 successful renders and 2 distinct nodes.",
		Assumptions:    []string{"error *classes* (error vs none) are compared, not error texts", "histories stop at the first cont=false or failing request (behaviour after a failed request is unspecified)"},
		MinEvaluations: 200,
		Shards:         func(string) int { return 16 },
		Run:            runC07,
	}
}

func c07Profile(r *vk.RNG) app.Profile {
	p := app.DefaultProfile()
	p.Lang = r.Chance(1, 3)
	p.Croak = r.Chance(1, 5)
	p.Terminate = r.Chance(1, 6)
	p.BigValues = r.Chance(1, 5)
	p.FixedSizes = r.Chance(2, 3)
	p.CatchVariants = r.Chance(1, 2)
	p.EarlyIncmp = r.Chance(1, 4)
	return p
}

// deepApp: a descending cycle root -> ping -> pong -> ping ... ('1' descends, '0' ascends), optionally
// loading a symbol per level, so that very deep stacks and very large snapshots are saved and resumed.
func deepApp(loadPerLevel bool, big int) *app.App {
	a := app.NewApp()
	a.FlagCount = 1
	mk := func(name, down string) *app.Node {
		var code []codec.Ins
		if loadPerLevel {
			code = append(code, codec.Ins{Op: codec.LOAD, S1: "lv" + name, N: 0}, codec.Ins{Op: codec.RELOAD, S1: "shared"})
		}
		code = append(code, codec.Ins{Op: codec.MOUT, S1: "deeper", S2: "1"}, codec.Ins{Op: codec.MOUT, S1: "back", S2: "0"}, codec.Ins{Op: codec.HALT},
			codec.Ins{Op: codec.INCMP, S1: down, S2: "1"}, codec.Ins{Op: codec.INCMP, S1: "_", S2: "0"})
		return &app.Node{Name: name, Code: code, Template: "this is " + name}
	}
	root := mk("root", "ping")
	root.Code = append([]codec.Ins{{Op: codec.LOAD, S1: "shared", N: 0}}, root.Code...)
	a.AddNode(root)
	a.AddNode(mk("ping", "pong"))
	a.AddNode(mk("pong", "ping"))
	a.AddNode(&app.Node{Name: "_catch", Template: "catch page", Code: []codec.Ins{{Op: codec.HALT}, {Op: codec.INCMP, S1: "_", S2: "*"}}})
	for _, n := range []string{"root", "ping", "pong"} {
		a.Funcs["lv"+n] = &app.FuncSpec{Sym: "lv" + n, Kind: "len", Lens: []int{big, 3, big / 2}}
	}
	a.Funcs["shared"] = &app.FuncSpec{Sym: "shared", Kind: "id"}
	a.Finalize()
	return a
}

// runC07Wide: a wizard - a chain of nodes that each load three symbols of their own, so that the session holds dozens
// to hundreds of distinct live symbols (no single scope is large).
// wideApp: a chain of depth nodes, each loading per symbols; the history walks to the bottom and a few steps back.
func wideApp(depth, per int) (*app.App, app.Config, []string) {
	a := app.NewApp()
	a.FlagCount = 1
	for k := 0; k < depth; k++ {
		name := fmt.Sprintf("w%d", k)
		if k == 0 {
			name = "root"
		}
		var code []codec.Ins
		for j := 0; j < per; j++ {
			sym := fmt.Sprintf("%s%d", string(rune('a'+j%26))+strings.Repeat("z", j/26), k)
			code = append(code, codec.Ins{Op: codec.LOAD, S1: sym, N: 40})
			a.Funcs[sym] = &app.FuncSpec{Sym: sym, Kind: "id"}
		}
		code = append(code, codec.Ins{Op: codec.MAP, S1: fmt.Sprintf("a%d", k)}, codec.Ins{Op: codec.MOUT, S1: "next", S2: "1"}, codec.Ins{Op: codec.MOUT, S1: "back", S2: "0"}, codec.Ins{Op: codec.HALT})
		if k+1 < depth {
			code = append(code, codec.Ins{Op: codec.INCMP, S1: fmt.Sprintf("w%d", k+1), S2: "1"})
		}
		code = append(code, codec.Ins{Op: codec.INCMP, S1: "_", S2: "0"})
		a.AddNode(&app.Node{Name: name, Code: code, Template: fmt.Sprintf("step %d {{.a%d}}", k, k)})
	}
	a.AddNode(&app.Node{Name: "_catch", Template: "catch page", Code: []codec.Ins{{Op: codec.HALT}, {Op: codec.INCMP, S1: "_", S2: "*"}}})
	a.Finalize()
	cfg := app.Config{FlagCount: 1, SessionId: "wide", Root: "root"}
	hist := []string{""}
	for k := 1; k < depth; k++ {
		hist = append(hist, "1")
	}
	hist = append(hist, "0", "0", "1", "x", "0")
	return a, cfg, hist
}

func runC07Wide(c *vk.Ctx) {
	// {levels, symbols loaded per level}: up to 100 levels with three symbols each; one level with 1100 symbols; 110
	// levels with twelve each (1320 symbols visible at once)
	// ... and one session 150 levels deep, which the application allows by raising the exported state.MaxLevel to 192
	for i, shape := range [][2]int{{12, 3}, {40, 3}, {100, 3}, {3, 1100}, {110, 12}, {150, 2}} {
		depth, per := shape[0], shape[1]
		key := fmt.Sprintf("wide/%d", depth)
		if per != 3 {
			key = fmt.Sprintf("wide/%dx%d", depth, per)
		}
		if !c.Mine(i+5) || !c.Want(key) {
			continue
		}
		a, cfg, hist := wideApp(depth, per)
		c.Begin(key)
		func() {
			if depth > 120 {
				old := state.MaxLevel
				state.MaxLevel = 192
				defer func() { state.MaxLevel = old }()
				c.Count("wide_histories_with_a_raised_level_limit", 1)
			}
			c07Compare(c, key, a, cfg, hist, false)
		}()
		c.Count("wide_histories", 1)
		c.Max("max_symbols_visible_in_a_wide_session", int64(depth*per))
	}
}

func runC07(c *vk.Ctx) {
	runC07Deep(c)
	runC07Wide(c)
	runC07SinkReuse(c)
	runC07Prepared(c)
	n := c.N(1600, 60000)
	for i := 0; i < n; i++ {
		if !c.Mine(i) {
			continue
		}
		key := fmt.Sprintf("hist/%d", i)
		if !c.Want(key) {
			continue
		}
		r := c.RNG(key)
		p := c07Profile(r)
		p.Latin1 = i%8 == 5 // function results that are not valid UTF-8 (see the known finding in c07Compare)
		a := app.Generate(r, p)
		cfg := genConfigDiff(r, a, "ses1")
		if a.Trans["nor"] != nil && r.Chance(1, 3) {
			cfg.Language = "nor"
		}
		hist := a.History(r, r.Range(3, 25))
		if i%4 == 3 {
			// a pre-VM "first" function without side effects: it runs once for the long-lived engine and on every
			// request for the per-request engines, and must not be visible in what the client sees
			a.Funcs["_first"] = &app.FuncSpec{Sym: "_first", Kind: "idlang"}
			cfg.First = true
			c.Count("histories_with_benign_first_function", 1)
		}
		c.Begin(key)
		c07Compare(c, key, a, cfg, hist, i < 1)
	}
}

// runC07Deep: very deep stacks (up to and beyond the 128-level limit) and very large snapshots.
func runC07Deep(c *vk.Ctx) {
	type dc struct {
		name  string
		depth int
		load  bool
		big   int
	}
	var cases []dc
	for _, d := range []int{100, 125, 126, 127, 128, 129, 131} {
		cases = append(cases, dc{fmt.Sprintf("deep/%d", d), d, false, 0})
	}
	cases = append(cases, dc{"deep/loaded/60", 60, true, 40}, dc{"deep/loaded/127", 127, true, 10}, dc{"deep/big/12", 12, true, 70000}, dc{"deep/big/30", 30, true, 9000})
	for i, dcase := range cases {
		if !c.Mine(i) || !c.Want(dcase.name) {
			continue
		}
		a := deepApp(dcase.load, dcase.big)
		cfg := app.Config{FlagCount: 1, SessionId: "deep", Root: "root"}
		hist := []string{""}
		for k := 0; k < dcase.depth; k++ {
			hist = append(hist, "1")
		}
		hist = append(hist, "0", "0", "1", "x", "0")
		c.Begin(dcase.name)
		c07Compare(c, dcase.name, a, cfg, hist, false)
		c.Count("deep_histories", 1)
	}
}

func c07Compare(c *vk.Ctx, key string, a *app.App, cfg app.Config, hist []string, sample bool) {
	// Known, not repaired: a session whose cache holds a value that is not valid UTF-8 is saved but cannot be loaded
	// (the record stores values as CBOR text strings, which the decoder refuses). Once the uninterrupted run holds such a
	// value, whatever the persisted run does afterwards is reported under that one signature.
	tainted := false
	taint := func(o *app.Obs) {
		if tainted || o == nil || o.Cache == nil {
			return
		}
		if !utf8.ValidString(o.Cache.Last) {
			tainted = true
		}
		for _, f := range o.Cache.Frames {
			for _, v := range f {
				if !utf8.ValidString(v) {
					tainted = true
				}
			}
		}
	}
	violate := func(sig, msg, key string, cs map[string]interface{}) {
		if tainted {
			sig = "non-utf8-value:session-cannot-be-resumed"
		}
		c.Violate(sig, msg, key, cs)
	}
	{
		i := 1
		if sample {
			i = 0
		}
		// reference: long-lived
		ll := app.NewLongLived(a, cfg)
		var ref []*app.Obs
		renders := 0
		nodes := map[string]bool{}
		for _, in := range hist {
			c.Note("ll " + in)
			o := ll.Request([]byte(in))
			ref = append(ref, o)
			if c.Only != "" {
				fmt.Fprintf(os.Stderr, "LL  %s\n    state=%+v\n    events=%v\n", o.Brief(), o.State, o.Events)
			}
			if o.ExecErr == "" && o.FlushErr == "" && o.Panic == "" && o.Out != "" {
				renders++
			}
			if o.State != nil && len(o.State.ExecPath) > 0 {
				nodes[o.State.ExecPath[len(o.State.ExecPath)-1]] = true
			}
			if !o.Cont || o.ExecErr != "" || o.FlushErr != "" || o.Panic != "" {
				break
			}
		}
		ll.Close()
		c.Eval(vk.Hash64(key), renders >= 3 && len(nodes) >= 2)
		c.Count("requests_long_lived", int64(len(ref)))
		c.Count("renders", int64(renders))
		if i < 1 {
			var tr []string
			for _, o := range ref {
				tr = append(tr, o.Brief())
			}
			c.Sample(map[string]interface{}{"key": key, "config": cfg, "app": a.Describe(), "history": hist, "long_lived_transcript": tr})
		}
		// engine.Loop as the driver: the whole history through one Loop call, and one Loop call per request with a
		// persister (dev/interactive); the client must see what it sees when Exec/Flush/Finish are called by hand
		loopable := true
		for _, in := range hist[:len(ref)] {
			if strings.ContainsAny(in, "\n\r") || in != strings.TrimSpace(in) || len(in) > 4000 {
				loopable = false // Loop reads lines and trims them: such inputs cannot be sent through it unchanged
			}
		}
		if loopable && !cfg.Debug {
			want := ""
			for _, o := range ref {
				if o.ExecErr != "" || o.FlushErr != "" {
					break
				}
				if o.Out != "" {
					want += o.Out + "\n"
				}
			}
			got, lerr, lpan := app.LoopWhole(a, cfg, hist[:len(ref)])
			c.Count("histories_through_engine_loop", 1)
			last := ref[len(ref)-1]
			if lpan == "" && last.Panic == "" && (got != want || (lerr != "") != (last.ExecErr != "" || last.FlushErr != "")) {
				violate("loop-differs:whole-history", fmt.Sprintf("the history through one engine.Loop call writes %q (error %q); Exec/Flush by hand: %q (last request %s)", got, lerr, want, last.Brief()), key,
					map[string]interface{}{"config": cfg, "app": a.Describe(), "history": hist[:len(ref)]})
			}
			// one Loop call per request over a store; afterwards the stored session equals that of the per-request driver
			bl, err1 := app.NewBackend("mem")
			bp, err2 := app.NewBackend("mem")
			if err1 == nil && err2 == nil {
				rl := app.NewRecRes(a)
				pr := app.NewPerRequest(a, cfg, bp)
				var lastStored *app.Obs
				okLoop := true
				for step, in := range hist[:len(ref)] {
					o := pr.Request([]byte(in))
					lastStored = o
					lo, le, lp := app.LoopRequest(a, cfg, bl, rl, in)
					c.Count("requests_through_engine_loop", 1)
					w := ""
					if o.Out != "" && o.ExecErr == "" && o.FlushErr == "" {
						w = o.Out + "\n"
					}
					if lp != "" || o.Panic != "" {
						okLoop = false
						break
					}
					if lo != w || (le != "") != (o.ExecErr != "" || o.FlushErr != "") {
						violate("loop-differs:per-request", fmt.Sprintf("step %d input %q through engine.Loop (new engine and persister, input as the initial one): wrote %q (error %q); Exec/Flush/Finish by hand: %s", step, in, lo, le, o.Brief()), key,
							map[string]interface{}{"config": cfg, "app": a.Describe(), "history": hist[:step+1]})
						okLoop = false
						break
					}
				}
				if okLoop && lastStored != nil && lastStored.StoredErr == "" {
					prl := app.NewPerRequest(a, cfg, bl)
					ls, lc, lerr2 := prl.ReadStored()
					if lerr2 != "" || !ls.Equal(lastStored.StoredState) || !lc.Equal(lastStored.StoredCache) {
						violate("loop-differs:stored-session", fmt.Sprintf("after the history served by one engine.Loop call per request the stored session is %+v / %+v (load error %q); served by hand: %+v / %+v", ls, lc, lerr2, lastStored.StoredState, lastStored.StoredCache), key,
							map[string]interface{}{"config": cfg, "app": a.Describe(), "history": hist[:len(ref)]})
					}
				}
				bl.Cleanup()
				bp.Cleanup()
			}
		}
		for _, bk := range c07Backends {
			b, err := app.NewBackend(bk)
			if err != nil {
				c.Inconclusive("backend " + bk + ": " + err.Error())
				continue
			}
			pr := app.NewPerRequest(a, cfg, b)
			// every third case: two long-lived store handles (two workers) serve the session's requests in turn
			if vk.Hash64(key, "alternate-handles")%3 == 0 {
				pr.AlternateHandles = true
				c.Count("histories_served_through_two_long_lived_handles_in_turn:"+bk, 1)
			}
			defer pr.Close()
			// every fourth case: at PRNG points the store refuses the save once (session data type locked while Finish
			// runs); the client sees the error, the lock is lifted, Finish is repeated - and nothing may be different
			rf := c.RNG(key + "/refuse-finish/" + bk)
			refusing := vk.Hash64(key, "refuse-finish")%4 == 0
			for step, in := range hist[:len(ref)] {
				c.Note(bk + " " + in)
				if refusing && rf.Chance(1, 3) {
					pr.RefuseFinishNext = true
				}
				o := pr.Request([]byte(in))
				if o.FinishRefused != "" {
					c.Count("saves_refused_once_and_repeated", 1)
				}
				c.Count("requests_persisted_"+bk, 1)
				if c.Only != "" && bk == "mem" {
					fmt.Fprintf(os.Stderr, "PR  %s\n    state=%+v\n    events=%v\n", o.Brief(), o.State, o.Events)
				}
				ro := ref[step]
				taint(ro)
				cs := func() map[string]interface{} {
					return map[string]interface{}{"backend": bk, "config": cfg, "app": a.Describe(), "history": hist[:step+1], "long_lived": ro.Brief(), "persisted": o.Brief()}
				}
				if o.Panic != "" || ro.Panic != "" {
					// crashes are C08's business; here they only end the comparison
					c.Count("histories_ended_by_panic", 1)
					break
				}
				if o.Cont != ro.Cont || app.ErrClass(o.ExecErr) != app.ErrClass(ro.ExecErr) || app.ErrClass(o.FlushErr) != app.ErrClass(ro.FlushErr) {
					violate(fmt.Sprintf("diverge:result:%s", divergeWhat(o, ro)), fmt.Sprintf("step %d backend %s: long-lived %s | persisted %s", step, bk, ro.Brief(), o.Brief()), key, cs())
					break
				}
				if o.Out != ro.Out {
					violate("diverge:output:"+diffComponent(ro.Out, o.Out), fmt.Sprintf("step %d backend %s: long-lived out %q | persisted out %q", step, bk, ro.Out, o.Out), key, cs())
					break
				}
				if o.FinishErr != "" {
					violate("finish-error:"+bk, fmt.Sprintf("step %d backend %s: Finish failed: %s", step, bk, o.FinishErr), key, cs())
					break
				}
				// snapshot round trip: what a fresh handle reads equals the live objects that were saved
				if o.StoredErr != "" {
					violate("stored-unreadable:"+bk, fmt.Sprintf("step %d backend %s: stored snapshot cannot be loaded: %s", step, bk, o.StoredErr), key, cs())
					break
				}
				if !o.StoredState.Equal(o.State) {
					violate("snapshot-state-differs:"+bk, fmt.Sprintf("step %d backend %s: stored state %+v live %+v", step, bk, o.StoredState, o.State), key, cs())
					break
				}
				if !o.StoredCache.Equal(o.Cache) {
					violate("snapshot-cache-differs:"+bk, fmt.Sprintf("step %d backend %s: stored cache %+v live %+v", step, bk, o.StoredCache, o.Cache), key, cs())
					break
				}
				c.Count("snapshots_reread", 1)
				if !o.Cont || o.ExecErr != "" || o.FlushErr != "" {
					break
				}
			}
			// two sessions whose requests alternate on the same store: each must still equal its own uninterrupted run
			{
				hist2 := []string{""}
				for x := len(hist) - 1; x >= 1; x-- {
					hist2 = append(hist2, hist[x])
				}
				cfg2 := cfg
				cfg2.SessionId = cfg.SessionId + "-two"
				ll2 := app.NewLongLived(a, cfg2)
				var ref2 []*app.Obs
				for _, in := range hist2 {
					o := ll2.Request([]byte(in))
					ref2 = append(ref2, o)
					if !o.Cont || o.ExecErr != "" || o.FlushErr != "" || o.Panic != "" {
						break
					}
				}
				ll2.Close()
				// pass 0: a persister of its own for every request; pass 1: one persister object serves both sessions
				// (worker-wide persister: WithFlush from the first request on, or a plain one for sessions that exist),
				// and at PRNG points a request is executed and flushed but abandoned before Finish (client gone)
				for pass := 0; pass < 2; pass++ {
					bi, err := app.NewBackend(bk)
					if err != nil {
						continue
					}
					prA := app.NewPerRequest(a, cfg, bi)
					prB := app.NewPerRequest(a, cfg2, bi)
					prA.SkipStoredRead, prB.SkipStoredRead = true, true
					mode := "own"
					ra := c.RNG(key + "/abandon/" + bk)
					if pass == 1 {
						mode = vk.Pick(ra, []string{"flush", "plain"})
						sp := &app.SharedPersister{Mode: mode}
						prA.Shared, prB.Shared = sp, sp
						defer sp.Close()
					}
					okA, okB := true, true
					for step := 0; step < len(ref) || step < len(ref2); step++ {
						for which, pr := range []*app.PerRequest{prA, prB} {
							rf, h, ok := ref, hist, &okA
							if which == 1 {
								rf, h, ok = ref2, hist2, &okB
							}
							if !*ok || step >= len(rf) {
								continue
							}
							if pass == 1 && step > 0 && os.Getenv("NOABANDON") == "" && ra.Chance(1, 5) {
								// an abandoned request: same input as the real one that follows, never finished
								calls := cloneCalls(pr.Res.Calls)
								pr.AbandonNext = true
								pr.Request([]byte(h[step]))
								pr.Res.Calls = calls
								c.Count("abandoned_requests", 1)
							}
							if pass == 1 && vk.Hash64(key, "refuse-finish")%2 == 0 && ra.Chance(1, 6) {
								pr.RefuseFinishNext = true // the store refuses this request's save once; Finish is repeated
							}
							o := pr.Request([]byte(h[step]))
							if o.FinishRefused != "" {
								c.Count("saves_refused_once_and_repeated", 1)
							}
							c.Count("interleaved_requests", 1)
							c.Count("interleaved_requests:persister-"+mode, 1)
							ro := rf[step]
							taint(ro)
							if o.Panic != "" || ro.Panic != "" {
								*ok = false
								continue
							}
							if o.Cont != ro.Cont || app.ErrClass(o.ExecErr) != app.ErrClass(ro.ExecErr) || app.ErrClass(o.FlushErr) != app.ErrClass(ro.FlushErr) || o.Out != ro.Out {
								sig := "interleaved-sessions-diverge:" + bk
								what := "a persister of its own per request"
								if pass == 1 {
									sig = "interleaved-sessions-diverge:shared-persister-" + mode + ":" + bk
									what = "one shared persister object (" + mode + "), some requests abandoned before Finish, some saves refused once and repeated"
								}
								violate(sig, fmt.Sprintf("two sessions alternating on one %s store, %s: session %d step %d: uninterrupted %s | persisted %s", bk, what, which+1, step, ro.Brief(), o.Brief()), key,
									map[string]interface{}{"backend": bk, "config": cfg, "app": a.Describe(), "history_session_1": hist, "history_session_2": hist2, "persister": mode})
								okA, okB = false, false
								continue
							}
							if !o.Cont || o.ExecErr != "" || o.FlushErr != "" {
								*ok = false
							}
						}
					}
					bi.Cleanup()
				}
			}
			if bk == "pg" {
				for _, cn := range b.Conns {
					if len(cn.OpenTx()) > 0 {
						c.Count("pg_transactions_left_open(dont-care here)", 1)
					}
					if len(cn.Unmodelled) > 0 {
						c.Inconclusive("pgfake unmodelled: " + strings.Join(cn.Unmodelled, ";"))
					}
				}
			}
			b.Cleanup()
		}
		if err := a.CheckCanaries(); err != nil {
			violate("shared-data-modified", err.Error(), key, map[string]interface{}{"app": a.Describe(), "history": hist})
		}
	}
}

func divergeWhat(o, ro *app.Obs) string {
	switch {
	case o.Cont != ro.Cont:
		return "cont"
	case app.ErrClass(o.ExecErr) != app.ErrClass(ro.ExecErr):
		return "exec-error"
	}
	return "flush-error"
}

// runC07SinkReuse: programs in which one symbol name is a paginated sink (size 0) in one node and an ordinary
// size-limited symbol in another (the first one is freed before the second is loaded), visited in both orders,
// with one- and multi-line content. A renderer that lives as long as the engine must not remember which symbol
// was the sink of an earlier page.
func runC07SinkReuse(c *vk.Ctx) {
	type variant struct {
		name  string
		msink bool
		hist  []string
	}
	variants := []variant{
		{"sink-then-limited", false, []string{"", "1", "0", "2", "0", "1"}},
		{"limited-then-sink", false, []string{"", "2", "0", "1", "0", "2"}},
		{"msink-then-limited", true, []string{"", "1", "0", "2", "0", "1"}},
	}
	for i, v := range variants {
		for si, size := range []uint32{0, 60, 200} {
			key := fmt.Sprintf("sinkreuse/%s/%d", v.name, size)
			if !c.Mine(i*3+si) || !c.Want(key) {
				continue
			}
			a := app.NewApp()
			a.FlagCount = 1
			a.AddNode(&app.Node{Name: "root", Template: "root page", Code: []codec.Ins{
				{Op: codec.MOUT, S1: "list", S2: "1"}, {Op: codec.MOUT, S1: "summary", S2: "2"}, {Op: codec.HALT},
				{Op: codec.INCMP, S1: "lst", S2: "1"}, {Op: codec.INCMP, S1: "sum", S2: "2"}}})
			lst := []codec.Ins{{Op: codec.LOAD, S1: "items", N: 0}, {Op: codec.MAP, S1: "items"}, {Op: codec.MOUT, S1: "back", S2: "0"},
				{Op: codec.MNEXT, S1: "next", S2: "11"}, {Op: codec.MPREV, S1: "prev", S2: "22"}}
			tpl := "the list\n{{.items}}"
			if v.msink {
				lst = []codec.Ins{{Op: codec.MOUT, S1: "back", S2: "0"}, {Op: codec.MOUT, S1: "one", S2: "5"}, {Op: codec.MOUT, S1: "two", S2: "6"},
					{Op: codec.MNEXT, S1: "next", S2: "11"}, {Op: codec.MPREV, S1: "prev", S2: "22"}, {Op: codec.MSINK}}
				tpl = "the list"
			}
			lst = append(lst, codec.Ins{Op: codec.HALT}, codec.Ins{Op: codec.INCMP, S1: ">", S2: "11"}, codec.Ins{Op: codec.INCMP, S1: "<", S2: "22"}, codec.Ins{Op: codec.INCMP, S1: "_", S2: "0"})
			a.AddNode(&app.Node{Name: "lst", Template: tpl, Code: lst})
			sym := "items"
			if v.msink {
				sym = "_menu"
			}
			a.AddNode(&app.Node{Name: "sum", Template: "summary:\n{{." + sym + "}}\nend", Code: []codec.Ins{
				{Op: codec.LOAD, S1: sym, N: 40}, {Op: codec.MAP, S1: sym}, {Op: codec.MOUT, S1: "back", S2: "0"}, {Op: codec.HALT}, {Op: codec.INCMP, S1: "_", S2: "0"}}})
			a.AddNode(&app.Node{Name: "_catch", Template: "catch page", Code: []codec.Ins{{Op: codec.HALT}, {Op: codec.INCMP, S1: "_", S2: "*"}}})
			a.Funcs[sym] = &app.FuncSpec{Sym: sym, Kind: "fixed", Fixed: "first line\nsecond line\nthird"}
			a.Finalize()
			cfg := app.Config{OutputSize: size, FlagCount: 1, SessionId: "sr", Root: "root"}
			c.Begin(key)
			c07Compare(c, key, a, cfg, v.hist, false)
			c.Count("sink_reuse_histories", 1)
		}
	}
}
