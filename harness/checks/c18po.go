package checks

import (
	"context"
	"fmt"
	"os"
	"path/filepath"
	"sort"
	"strings"

	"git.defalsify.org/vise.git/lang"
	"git.defalsify.org/vise.git/resource"

	"verif/harness/vk"
)

// c18Gettext: the gettext resource (resource.PoResource) against a dictionary model. Generated locale trees
// (<dir>/<code>/{x-vise,x-vise_menu,default}.po) hold key -> default-language text for random subsets of the
// template and menu keys and default text -> translation for random subsets per registered language. Every
// (key, kind, context language) lookup must return the translation when one exists and the default-language
// text otherwise; the context language is put on the context exactly as the engine does (lang.Language under
// "Language"), including languages that were never registered and no language at all.
func c18Gettext(c *vk.Ctx) {
	n := c.N(150, 6000)
	codes := []string{"eng", "nor", "swa", "fra", "deu", "spa"}
	for i := 0; i < n; i++ {
		if !c.Mine(i) {
			continue
		}
		key := fmt.Sprintf("po/%d", i)
		if !c.Want(key) {
			continue
		}
		r := c.RNG(key)
		c.Begin(key)
		dir, err := os.MkdirTemp("", "c18po-")
		if err != nil {
			c.Inconclusive(err.Error())
			return
		}
		func() {
			defer os.RemoveAll(dir)
			perm := make([]int, len(codes))
			for k := range perm {
				perm[k] = k
			}
			for k := len(perm) - 1; k > 0; k-- {
				j := r.Intn(k + 1)
				perm[k], perm[j] = perm[j], perm[k]
			}
			def := codes[perm[0]]
			nreg := r.Range(0, 3)
			var reg []string
			for k := 1; k <= nreg; k++ {
				reg = append(reg, codes[perm[k]])
			}
			unreg := codes[perm[nreg+1]]
			text := func(kind string, j int) string {
				words := []string{"Welcome", "balance is 10", "Send money", "Back", "Next page", "a: b", "100%", "it's", "x  y", "Ünï cödé", "line1", "q?"}
				return fmt.Sprintf("%s %s%d", vk.Pick(r, words), kind, j)
			}
			// key -> default-language text
			keymap := map[string]map[string]string{"template": {}, "menu": {}}
			var keys []string
			for j := 0; j < 6; j++ {
				keys = append(keys, fmt.Sprintf("sym%d", j))
			}
			for _, kind := range []string{"template", "menu"} {
				for j, k := range keys {
					if r.Chance(2, 3) {
						keymap[kind][k] = text(kind[:1], j)
					}
				}
			}
			// the same key may have different default texts as template and as menu label, or share one
			if r.Chance(1, 3) {
				if t, ok := keymap["template"]["sym0"]; ok {
					keymap["menu"]["sym0"] = t
				}
			}
			base := func(kind, k string) string {
				if t, ok := keymap[kind][k]; ok {
					return t
				}
				return k
			}
			// default text -> translation, per registered language
			trans := map[string]map[string]string{}
			for _, l := range reg {
				trans[l] = map[string]string{}
				for _, kind := range []string{"template", "menu"} {
					for _, k := range keys {
						if r.Chance(1, 2) {
							b := base(kind, k)
							if _, dup := trans[l][b]; !dup {
								trans[l][b] = strings.ToUpper(l) + ":" + b
							}
						}
					}
				}
			}
			writePo := func(code, domain string, m map[string]string) {
				var b strings.Builder
				fmt.Fprintf(&b, "msgid \"\"\nmsgstr \"\"\n\t\"Content-Type: text/plain; charset=UTF-8\\n\"\n\t\"Language: %s\\n\"\n", code)
				var ks []string
				for k := range m {
					ks = append(ks, k)
				}
				sort.Strings(ks)
				for _, k := range ks {
					fmt.Fprintf(&b, "\nmsgid \"\"\n\t%q\nmsgstr \"\"\n\t%q\n", k, m[k])
				}
				d := filepath.Join(dir, code)
				os.MkdirAll(d, 0700)
				os.WriteFile(filepath.Join(d, domain+".po"), []byte(b.String()), 0600)
			}
			writePo(def, resource.TemplateKeyPoDomain, keymap["template"])
			writePo(def, resource.MenuKeyPoDomain, keymap["menu"])
			for _, l := range reg {
				writePo(l, resource.PoDomain, trans[l])
			}
			// the unregistered language has a catalogue on disk all the same (a locale directory shared with other
			// applications): it was never registered with this resource, so its entries must not be used
			stray := map[string]string{}
			for _, kind := range []string{"template", "menu"} {
				for _, k := range keys {
					stray[base(kind, k)] = "STRAY:" + base(kind, k)
				}
			}
			writePo(unreg, resource.PoDomain, stray)
			mustLang := func(code string) lang.Language {
				l, err := lang.LanguageFromCode(code)
				if err != nil {
					panic(err)
				}
				return l
			}
			var rs *resource.PoResource
			pv, stack := vk.Guard(func() {
				rs = resource.NewPoResource(mustLang(def), dir)
				for _, l := range reg {
					rs = rs.WithLanguage(mustLang(l))
				}
			})
			if pv != nil {
				c.Violate("gettext:"+vk.PanicSig(pv, stack), fmt.Sprintf("creating the gettext resource panics: %v", pv), key, map[string]interface{}{"default": def, "registered": reg})
				return
			}
			ctxLangs := append([]string{"", def, unreg}, reg...)
			for _, cl := range ctxLangs {
				ctx := context.Background()
				if cl != "" {
					ctx = context.WithValue(ctx, "Language", mustLang(cl))
				}
				for _, kind := range []string{"template", "menu"} {
					for _, k := range append(append([]string{}, keys...), "nokey") {
						want := base(kind, k)
						class := "default-text"
						if t, ok := trans[cl][want]; ok {
							want = t
							class = "translated"
						} else if cl != "" && cl != def {
							class = "fallback-to-default"
							if trans[cl] == nil {
								class = "fallback-unregistered-language"
							}
						}
						var got string
						var gerr error
						pv, stack := vk.Guard(func() {
							if kind == "menu" {
								got, gerr = rs.GetMenu(ctx, k)
							} else {
								got, gerr = rs.GetTemplate(ctx, k)
							}
						})
						c.Eval(vk.Hash64(key, cl, kind, k), class != "default-text")
						c.Count("gettext_lookups:"+class, 1)
						csd := map[string]interface{}{"default": def, "registered": reg, "context_language": cl, "kind": kind, "key": k, "keymap": keymap, "translations": trans}
						if pv != nil {
							c.Violate("gettext:"+vk.PanicSig(pv, stack), fmt.Sprintf("gettext %s lookup of %q in %q panics: %v", kind, k, cl, pv), key, csd)
							return
						}
						if gerr != nil || got != want {
							c.Violate("gettext:"+kind+":"+class, fmt.Sprintf("gettext resource (default %s, registered %v): %s %q looked up with context language %q returns %q (err %v), expected %q", def, reg, kind, k, cl, got, gerr, want), key, csd)
							return
						}
					}
				}
			}
		}()
	}
}
