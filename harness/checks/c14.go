package checks

import (
	"bytes"
	"fmt"
	"strings"

	"git.defalsify.org/vise.git/asm"
	"git.defalsify.org/vise.git/vm"

	"verif/harness/codec"
	"verif/harness/vk"
)

// ---------------------------------------------------------------------------------------------
// C14 — encode/decode round trip, three decoders, assembler encoders

func widthClass(n uint32) string {
	switch {
	case n == 0:
		return "zero"
	case n < 1<<8:
		return "w1"
	case n < 1<<16:
		return "w2"
	case n < 1<<24:
		return "w3"
	}
	return "w4"
}

var c14Sentinel = []byte{0xEE, 0xEE, 0xEE}

// a handler shared by all programs of a worker (the disassembler is documented as reusable)
var reusedPH *vm.ParseHandler
var reuseTick uint

// checkInt runs the cheap integer legs for one value. buf is scratch.
func checkInt(n uint32, buf []byte) (string, string) {
	enc, err := asm.VerifWriteSize(n)
	if err != nil {
		return "int:asm-encoder-rejects:" + widthClass(n), fmt.Sprintf("writeSize(%d): %v", n, err)
	}
	if len(enc) < 1 || int(enc[0]) != len(enc)-1 || enc[0] > 4 {
		return "int:asm-encoder-malformed:" + widthClass(n), fmt.Sprintf("writeSize(%d) = %x", n, enc)
	}
	var dn uint32
	for _, x := range enc[1:] {
		dn = dn<<8 | uint32(x)
	}
	if dn != n {
		return "int:asm-enc->harness-dec:" + widthClass(n), fmt.Sprintf("writeSize(%d) = %x decodes to %d", n, enc, dn)
	}
	// LOAD leg
	buf = buf[:0]
	buf = append(buf, 2, 'a', 'b')
	buf = append(buf, enc...)
	buf = append(buf, c14Sentinel...)
	sym, sz, rest, err := vm.ParseLoad(buf)
	if err != nil || sym != "ab" || sz != n || !bytes.Equal(rest, c14Sentinel) {
		return "int:asm-enc->vm-dec:LOAD:" + widthClass(n), fmt.Sprintf("ParseLoad(ab,%d enc %x) = %q %d rest %x err %v", n, enc, sym, sz, rest, err)
	}
	// CROAK leg, both modes
	for m := byte(0); m < 2; m++ {
		buf = buf[:0]
		buf = append(buf, enc...)
		buf = append(buf, m)
		buf = append(buf, c14Sentinel...)
		sig, mode, rest, err := vm.ParseCroak(buf)
		if err != nil || sig != n || mode != (m == 1) || !bytes.Equal(rest, c14Sentinel) {
			return "int:asm-enc->vm-dec:CROAK:" + widthClass(n), fmt.Sprintf("ParseCroak(%d enc %x mode %d) = %d %v rest %x err %v", n, enc, m, sig, mode, rest, err)
		}
	}
	return "", ""
}

// checkIntFull adds the CATCH leg, the NewLine encoder and the disassembler.
func checkIntFull(n uint32) (string, string) {
	enc, err := asm.VerifWriteSize(n)
	if err != nil {
		return "int:asm-encoder-rejects:" + widthClass(n), err.Error()
	}
	for m := byte(0); m < 2; m++ {
		buf := append([]byte{3, 'x', 'y', 'z'}, enc...)
		buf = append(buf, m)
		buf = append(buf, c14Sentinel...)
		sym, sig, mode, rest, err := vm.ParseCatch(buf)
		if err != nil || sym != "xyz" || sig != n || mode != (m == 1) || !bytes.Equal(rest, c14Sentinel) {
			return "int:asm-enc->vm-dec:CATCH:" + widthClass(n), fmt.Sprintf("ParseCatch(%d) = %q %d %v rest %x err %v", n, sym, sig, mode, rest, err)
		}
	}
	prog := []codec.Ins{{Op: codec.LOAD, S1: "ab", N: n}, {Op: codec.CATCH, S1: "cd", N: n, Mode: n&1 == 1}, {Op: codec.CROAK, N: n, Mode: n&2 == 2}, {Op: codec.HALT}}
	return checkProgram(prog, true, false)
}

// checkProgram encodes through vm.NewLine and compares all decoders.
func checkProgram(prog []codec.Ins, textSafe, asmSafe bool) (string, string) {
	b := codec.EncodeAll(prog)
	opOf := func(i int) string {
		if i < len(prog) {
			return codec.OpName[prog[i].Op]
		}
		return "end"
	}
	firstDiff := func(got []codec.Ins) int {
		for i := range prog {
			if i >= len(got) || got[i] != prog[i] {
				return i
			}
		}
		return len(prog)
	}
	// independent decoder
	hp, class, _ := codec.Decode(b)
	if class != codec.Valid || !codec.Equal(hp, prog) {
		i := firstDiff(hp)
		return "prog:newline->harness-dec:" + opOf(i), fmt.Sprintf("class %s; instruction %d: encoded %v, harness decoder reads %v", class, i, at(prog, i), at(hp, i))
	}
	// VM decoder
	var vp []codec.Ins
	var rest []byte
	var err error
	pv, _ := vk.Guard(func() { vp, rest, err = codec.VMDecode(b) })
	if pv != nil {
		return "prog:newline->vm-dec:panic", fmt.Sprintf("panic %v decoding %v", pv, codec.Strings(prog))
	}
	if err != nil || len(rest) != 0 || !codec.Equal(vp, prog) {
		i := firstDiff(vp)
		return "prog:newline->vm-dec:" + opOf(i), fmt.Sprintf("err %v rest %d; instruction %d: encoded %v, vm decoder reads %v", err, len(rest), i, at(prog, i), at(vp, i))
	}
	// what was decoded stays what it is when the caller goes on to use its buffer for something else (a read buffer
	// refilled with the next node's code, a buffer the next program is assembled into)
	{
		bb := append([]byte{}, b...)
		var vp2 []codec.Ins
		pv, _ := vk.Guard(func() { vp2, _, _ = codec.VMDecode(bb) })
		for i := range bb {
			bb[i] = 'Z'
		}
		if pv == nil && !codec.Equal(vp2, prog) {
			i := firstDiff(vp2)
			return "prog:vm-dec:result-aliases-input-buffer:" + opOf(i), fmt.Sprintf("instruction %d decoded as %v, after the input buffer was overwritten it reads %v", i, at(prog, i), at(vp2, i))
		}
	}
	// a tool that replaces some of the public handler fields (it collects the LOAD symbols and leaves HALT out of
	// the listing): the listing is the default one without the lines of the silent handlers, and the collected
	// arguments are the encoded ones
	{
		var loads []string
		ph := vm.NewParseHandler().WithDefaultHandlers()
		ph.Load = func(sym string, sz uint32) error { loads = append(loads, fmt.Sprintf("%s %d", sym, sz)); return nil }
		ph.Halt = func() error { return nil }
		var fl string
		var ferr error
		pv, _ := vk.Guard(func() { fl, ferr = ph.ToString(b) })
		var wantLines, wantLoads []string
		for k, ln := range codec.Strings(prog) {
			switch prog[k].Op {
			case codec.LOAD:
				wantLoads = append(wantLoads, fmt.Sprintf("%s %d", prog[k].S1, prog[k].N))
			case codec.HALT:
			default:
				wantLines = append(wantLines, ln)
			}
		}
		want := strings.Join(wantLines, "\n")
		if len(wantLines) > 0 {
			want += "\n"
		}
		if pv != nil || ferr != nil || fl != want || strings.Join(loads, ";") != strings.Join(wantLoads, ";") {
			return "prog:tostring:replaced-handlers", fmt.Sprintf("with Load and Halt replaced by silent handlers the listing is %q (err %v, panic %v), expected %q; LOADs seen %v, encoded %v", trunc([]byte(fl), 300), ferr, pv, trunc([]byte(want), 300), loads, wantLoads)
		}
	}
	// ParseAll accepts and consumes
	var ts string
	var terr error
	pv, _ = vk.Guard(func() { ts, terr = vm.NewParseHandler().WithDefaultHandlers().ToString(b) })
	// the same listing from a handler that is reused across programs and has seen a failed listing
	// (a truncation of this program) and a plain verification pass (ParseAll) in between
	if pv == nil && terr == nil {
		var ts2 string
		var terr2 error
		pv2, _ := vk.Guard(func() {
			if reusedPH == nil {
				reusedPH = vm.NewParseHandler().WithDefaultHandlers()
			}
			switch reuseTick % 3 {
			case 0:
				if len(b) > 3 {
					reusedPH.ToString(b[:len(b)-1-int(reuseTick)%(len(b)-2)])
				}
			case 1:
				reusedPH.ParseAll(b)
			}
			reuseTick++
			ts2, terr2 = reusedPH.ToString(b)
		})
		if pv2 != nil || terr2 != nil || ts2 != ts {
			reusedPH = nil
			return "prog:tostring:reused-handler-differs", fmt.Sprintf("a ParseHandler reused after a failed listing / a ParseAll pass lists %q (err %v, panic %v), a fresh one %q", trunc([]byte(ts2), 200), terr2, pv2, trunc([]byte(ts), 200))
		}
	}
	if pv != nil {
		return "prog:tostring:panic", fmt.Sprintf("panic %v listing %v", pv, codec.Strings(prog))
	}
	if terr != nil {
		return "prog:tostring:rejects-valid", fmt.Sprintf("ToString error %v for %v", terr, codec.Strings(prog))
	}
	if textSafe {
		tp, perr := codec.ParseText(ts)
		if perr != nil || !codec.Equal(tp, prog) {
			i := firstDiff(tp)
			return "prog:tostring:" + opOf(i), fmt.Sprintf("listing differs at instruction %d: encoded %v, listed %v (%v)", i, at(prog, i), at(tp, i), perr)
		}
	}
	if asmSafe {
		w := bytes.NewBuffer(nil)
		var aerr error
		pv, _ = vk.Guard(func() { _, aerr = asm.Parse(ts, w) })
		if pv != nil {
			return "prog:asm(tostring):panic", fmt.Sprintf("panic %v assembling %q", pv, ts)
		}
		if aerr != nil {
			return "prog:asm(tostring):rejects", fmt.Sprintf("asm.Parse error %v for listing %q", aerr, ts)
		}
		if !bytes.Equal(w.Bytes(), b) {
			ap, _, _ := codec.Decode(w.Bytes())
			i := firstDiff(ap)
			return "prog:asm(tostring)!=bytes:" + opOf(i), fmt.Sprintf("instruction %d: original %v, re-assembled %v", i, at(prog, i), at(ap, i))
		}
	}
	return "", ""
}

func at(p []codec.Ins, i int) string {
	if i < len(p) {
		return p[i].String()
	}
	return "(none)"
}

var strOps = []uint16{codec.CATCH, codec.LOAD, codec.RELOAD, codec.MAP, codec.MOVE, codec.INCMP, codec.MOUT, codec.MNEXT, codec.MPREV}

func symOfClass(r *vk.RNG, l int, class int) (string, bool) {
	b := make([]byte, l)
	textSafe := true
	switch class {
	case 0:
		for i := range b {
			b[i] = 'a'
		}
	case 1:
		const al = "abcdefghijklmnopqrstuvwxyzABCDEFGHIJKLMNOPQRSTUVWXYZ0123456789_"
		for i := range b {
			b[i] = al[r.Intn(len(al))]
		}
	case 2:
		for i := range b {
			b[i] = byte(r.Intn(256))
		}
		textSafe = false
	case 3:
		for i := range b {
			b[i] = 0xff
		}
	case 4:
		for i := range b {
			b[i] = 0
		}
		textSafe = false
	}
	s := string(b)
	if strings.ContainsAny(s, " \n") {
		textSafe = false
	}
	return s, textSafe
}

func asmSym(r *vk.RNG) string {
	const first = "abcdefghijklmnopqrstuvwxyz"
	const restc = "abcdefghijklmnopqrstuvwxyz0123456789_"
	l := r.Range(2, 12)
	if r.Chance(1, 20) {
		l = r.Range(13, 255)
	}
	b := make([]byte, l)
	b[0] = first[r.Intn(len(first))]
	for i := 1; i < l; i++ {
		b[i] = restc[r.Intn(len(restc))]
	}
	return string(b)
}

func asmSel(r *vk.RNG) string {
	switch r.Intn(4) {
	case 0:
		return fmt.Sprint(r.Intn(10))
	case 1:
		return fmt.Sprint(r.Intn(1000) + 1)
	case 2:
		return fmt.Sprint(r.U32())
	}
	return asmSym(r)
}

func randInt(r *vk.RNG) uint32 {
	if r.Chance(1, 12) {
		return vk.Pick(r, []uint32{0xffffffff, 0xfffffffe, 0x80000000, 0x7fffffff, 0x00ffffff, 0x01000000, 0xffff, 0x10000, 0xff, 0x100})
	}
	switch r.Intn(6) {
	case 0:
		return uint32(r.Intn(256))
	case 1:
		return uint32(r.Intn(65536))
	case 2:
		return uint32(r.Intn(1 << 24))
	case 3:
		return r.U32()
	case 4:
		p := uint32(1) << uint(r.Intn(32))
		return p + uint32(r.Intn(3)) - 1
	}
	return uint32(r.Intn(20))
}

func genProgram(r *vk.RNG, asmSafe bool) ([]codec.Ins, bool) {
	n := r.Range(1, 60)
	prog := make([]codec.Ins, 0, n)
	textSafe := true
	str := func() string {
		if asmSafe {
			return asmSym(r)
		}
		l := r.Range(1, 20)
		if r.Chance(1, 15) {
			l = vk.Pick(r, []int{254, 255, 128, 127, 1})
		}
		s, ts := symOfClass(r, l, r.Intn(5))
		if !ts {
			textSafe = false
		}
		return s
	}
	sel := func() string {
		if asmSafe {
			return asmSel(r)
		}
		return str()
	}
	for i := 0; i < n; i++ {
		op := uint16(r.Range(1, 12))
		ins := codec.Ins{Op: op}
		nstr, hasInt, hasMode, _ := codec.Shape(op)
		if nstr >= 1 {
			ins.S1 = str()
		}
		if nstr >= 2 {
			ins.S2 = sel()
		}
		if asmSafe && op == codec.INCMP && r.Chance(1, 10) {
			ins.S2 = "*" // the wildcard selector
		}
		if hasInt {
			ins.N = randInt(r)
		}
		if hasMode {
			ins.Mode = r.Bool()
		}
		prog = append(prog, ins)
	}
	return prog, textSafe
}

func C14() *vk.Check {
	return &vk.Check{
		ID:    "C14",
		Level: "exploration",
		Rule: "round trip x -> encode -> decode -> x with exact consumption (sentinel bytes / following instruction). (A) integers: asm.writeSize(n) (hook VerifWriteSize) decoded by vm.ParseLoad/ParseCroak for every n in the tier's set — thorough: ALL 2^32 values; quick: every n within 4096 of each power of two and of 0/2^32-1, a stride sweep of 2^20 values and 2^20 PRNG values — plus CATCH leg, vm.NewLine encoder, independent decoder and disassembler on a subset containing all boundaries; " +
			"(B) symbols: every length 1..255 x 5 content classes x 9 string-carrying opcodes (both argument positions) through vm.NewLine and asm.writeSym; (C) PRNG programs of 1..60 instructions over all 12 opcodes compared across vm.Parse*, ParseHandler.ToString (parsed back), the harness's independent decoder and asm.Parse(ToString(bytes))==bytes for programs in the assembler's grammar. " +
			"distinct = enumerated values are distinct by construction; programs by hash of their listing; non-trivial = every case (each exercises at least one argument-carrying instruction).",
		Assumptions:    []string{"the harness decoder (codec.Decode) is written from the format description and is the trusted reference", "NOOP (opcode 0) is not one of the twelve instructions and is not generated"},
		MinEvaluations: 100000,
		Shards:         func(string) int { return 16 },
		Run:            runC14,
	}
}

// c14IntForms: the encoder vm.NewLine is handed every form of an integer argument the format allows - minimal, padded
// with leading zero bytes up to four bytes, and the zero-length form of 0 - for every instruction that has one, alone
// and followed by another instruction; both decoders must read the value back and consume exactly the instruction.
func c14IntForms(c *vk.Ctx) {
	if !c.Mine(0) || !c.Want("int-forms") {
		return
	}
	c.Begin("int-forms")
	vals := []uint32{0, 1, 7, 255, 256, 65535, 65536, 1 << 24, 0xffffffff}
	for _, op := range []uint16{codec.CATCH, codec.CROAK, codec.LOAD} {
		for _, n := range vals {
			min := codec.IntBytes(n)
			var forms [][]byte
			forms = append(forms, min)
			for l := len(min) + 1; l <= 4; l++ {
				forms = append(forms, append(make([]byte, l-len(min)), min...))
			}
			if n == 0 {
				forms = append(forms, []byte{}, []byte{0, 0, 0, 0})
			}
			for _, form := range forms {
				for _, followed := range []bool{false, true} {
					var strs []string
					var nb []uint8
					want := codec.Ins{Op: op, N: n}
					switch op {
					case codec.CATCH:
						strs, nb, want.S1, want.Mode = []string{"node"}, []uint8{1}, "node", true
					case codec.CROAK:
						nb, want.Mode = []uint8{1}, true
					case codec.LOAD:
						strs, want.S1 = []string{"sym"}, "sym"
					}
					b := vm.NewLine(nil, op, strs, form, nb)
					prog := []codec.Ins{want}
					if followed {
						b = vm.NewLine(b, vm.HALT, nil, nil, nil)
						prog = append(prog, codec.Ins{Op: codec.HALT})
					}
					c.EvalN(1, 1)
					c.Count("integer_forms_encoded", 1)
					csd := map[string]interface{}{"op": codec.OpName[op], "n": n, "integer_bytes": fmt.Sprintf("%x", form), "encoded": fmt.Sprintf("%x", b)}
					hp, class, _ := codec.Decode(b)
					if class != codec.Valid || !codec.Equal(hp, prog) {
						c.Violate(fmt.Sprintf("int-form:newline->harness-dec:%s:len%d", codec.OpName[op], len(form)), fmt.Sprintf("%s with the integer %d given as %d byte(s) %x encodes to %x, which reads as %v (%s)", codec.OpName[op], n, len(form), form, b, codec.Strings(hp), class), "int-forms", csd)
						continue
					}
					var vp []codec.Ins
					var rest []byte
					var err error
					pv, _ := vk.Guard(func() { vp, rest, err = codec.VMDecode(b) })
					if pv != nil || err != nil || len(rest) != 0 || !codec.Equal(vp, prog) {
						c.Violate(fmt.Sprintf("int-form:newline->vm-dec:%s:len%d", codec.OpName[op], len(form)), fmt.Sprintf("%s with the integer %d given as %x: the VM decoder reads %v (err %v, panic %v, %d bytes left)", codec.OpName[op], n, form, codec.Strings(vp), err, pv, len(rest)), "int-forms", csd)
					}
				}
			}
		}
	}
}

func runC14(c *vk.Ctx) {
	c14IntForms(c)
	c14MenuProcessor(c)
	buf := make([]byte, 0, 64)
	var intCount int64
	doInt := func(n uint32, full bool, key string) {
		sig, msg := checkInt(n, buf)
		if sig == "" && full {
			sig, msg = checkIntFull(n)
		}
		intCount++
		if sig != "" {
			c.Violate(sig, msg, key, map[string]interface{}{"n": n})
		}
	}
	// (A) integers
	if c.Only == "" || strings.HasPrefix(c.Only, "int/") {
		if !c.Quick() {
			// all 2^32 values, split in 16 contiguous ranges per shard id
			per := uint64(1<<32) / uint64(c.NShards)
			lo := uint64(c.Shard) * per
			hi := lo + per
			if c.Shard == c.NShards-1 {
				hi = 1 << 32
			}
			key := fmt.Sprintf("int/range/%d-%d", lo, hi-1)
			if c.Want(key) {
				c.Begin(key)
				for n := lo; n < hi; n++ {
					doInt(uint32(n), n&0xfff == 0, key)
				}
				c.Count("ints_exhaustive_range", int64(hi-lo))
				c.SetExhaustive(true)
			}
		}
		key := "int/boundaries"
		if c.Want(key) && c.Mine(0) {
			c.Begin(key)
			for p := 0; p <= 32; p++ {
				center := uint64(1) << uint(p)
				for d := int64(-4096); d <= 4096; d++ {
					v := int64(center) + d
					if v < 0 || v > 0xffffffff {
						continue
					}
					doInt(uint32(v), true, key)
				}
			}
			for v := uint32(0); v < 8192; v++ {
				doInt(v, true, key)
			}
			c.Count("ints_boundary", 1)
		}
		key = "int/stride"
		if c.Want(key) {
			c.Begin(key)
			for k := 0; k < 1<<20; k++ {
				if !c.Mine(k) {
					continue
				}
				doInt(uint32(uint64(k)*4099+uint64(c.Seed)), k%64 == 0, key)
			}
		}
		key = "int/random"
		if c.Want(key) {
			c.Begin(key)
			r := c.RNG(fmt.Sprintf("int/random/%d", c.Shard))
			for k := 0; k < (1<<20)/c.NShards; k++ {
				doInt(r.U32(), k%16 == 0, key)
			}
		}
		c.EvalN(intCount, intCount)
		c.Count("integers_checked", intCount)
	}
	// (B) symbols
	var symCount int64
	for l := 1; l <= 255; l++ {
		if !c.Mine(l) {
			continue
		}
		key := fmt.Sprintf("sym/%d", l)
		if !c.Want(key) {
			continue
		}
		c.Begin(key)
		r := c.RNG(key)
		for class := 0; class < 5; class++ {
			s, textSafe := symOfClass(r, l, class)
			ws, err := asm.VerifWriteSym(s)
			if err != nil || len(ws) != l+1 || int(ws[0]) != l || string(ws[1:]) != s {
				c.Violate("sym:asm-writeSym", fmt.Sprintf("writeSym(len %d class %d) = %x err %v", l, class, ws, err), key, map[string]interface{}{"len": l, "class": class})
			}
			for _, op := range strOps {
				nstr, _, _, _ := codec.Shape(op)
				for pos := 0; pos < nstr; pos++ {
					ins := codec.Ins{Op: op, S1: "ab", S2: "cd", N: 7, Mode: true}
					if nstr < 2 {
						ins.S2 = ""
					}
					_, hasInt, hasMode, _ := codec.Shape(op)
					if !hasInt {
						ins.N = 0
					}
					if !hasMode {
						ins.Mode = false
					}
					if pos == 0 {
						ins.S1 = s
					} else {
						ins.S2 = s
					}
					sig, msg := checkProgram([]codec.Ins{ins, {Op: codec.HALT}, ins}, textSafe, false)
					symCount++
					if sig != "" {
						c.Violate("sym:"+sig+fmt.Sprintf(":len%d", l), msg, key, map[string]interface{}{"len": l, "class": class, "op": codec.OpName[op], "pos": pos})
					}
					// the NewLine bytes for this argument equal what asm.writeSym emits
					enc := codec.EncodeAll([]codec.Ins{ins})
					if !bytes.Contains(enc, ws) {
						c.Violate("sym:newline!=writeSym", fmt.Sprintf("len %d class %d op %s", l, class, codec.OpName[op]), key, nil)
					}
				}
			}
		}
	}
	c.EvalN(symCount, symCount)
	c.Count("symbol_cases", symCount)
	// must-reject lengths for the assembler's string encoder (outside the encodable domain)
	if c.Mine(0) && c.Only == "" {
		if _, err := asm.VerifWriteSym(strings.Repeat("a", 256)); err == nil {
			c.Violate("sym:asm-writeSym-accepts-256", "writeSym accepted a 256-byte string", "sym/256", nil)
		}
	}
	// (C) programs
	np := c.N(20000, 1000000)
	for i := 0; i < np; i++ {
		if !c.Mine(i) {
			continue
		}
		key := fmt.Sprintf("prog/%d", i)
		if !c.Want(key) {
			continue
		}
		r := c.RNG(key)
		asmSafe := i%2 == 0
		prog, textSafe := genProgram(r, asmSafe)
		c.Begin(key)
		sig, msg := checkProgram(prog, textSafe, asmSafe)
		c.Eval(vk.Hash64(codec.Strings(prog)...), true)
		c.Count("programs", 1)
		c.Count("program_instructions", int64(len(prog)))
		if asmSafe {
			c.Count("programs_through_assembler", 1)
		}
		if i < 2 {
			c.Sample(map[string]interface{}{"key": key, "program": codec.Strings(prog)})
		}
		if sig != "" {
			c.Violate(sig, msg, key, map[string]interface{}{"program": codec.Strings(prog)})
		}
	}
}

// c14MenuProcessor: the public batch-menu encoder used on its own and kept after an error: entries it refused (an unknown
// batch code, a target on an entry that takes none) must not show up in what it encodes afterwards - the bytes equal
// those of a processor that was only given the accepted entries, and decode to the documented expansion.
func c14MenuProcessor(c *vk.Ctx) {
	if !c.Mine(1) || !c.Want("menu-processor") {
		return
	}
	c.Begin("menu-processor")
	r := c.RNG("menu-processor")
	type ent struct{ bop, choice, display, target string }
	for i := 0; i < c.N(400, 20000); i++ {
		var all, accepted []ent
		n := r.Range(1, 8)
		for k := 0; k < n; k++ {
			e := ent{bop: vk.Pick(r, []string{"DOWN", "UP", "NEXT", "PREVIOUS"}), choice: fmt.Sprint(r.Intn(10)), display: fmt.Sprintf("label%d", k)}
			if e.bop == "DOWN" {
				e.target = fmt.Sprintf("node%d", k)
			}
			switch r.Intn(5) {
			case 0:
				e.bop = "SIDEWAYS" // unknown code
			case 1:
				if e.bop != "DOWN" {
					e.target = "nowhere" // only DOWN takes a target
				}
			}
			all = append(all, e)
		}
		mp := asm.NewMenuProcessor()
		for _, e := range all {
			if err := mp.Add(e.bop, e.choice, e.display, e.target); err == nil {
				accepted = append(accepted, e)
			}
		}
		ref := asm.NewMenuProcessor()
		for _, e := range accepted {
			ref.Add(e.bop, e.choice, e.display, e.target)
		}
		got, want := mp.ToLines(), ref.ToLines()
		// encoding is a read: asked again (once to measure, once to write), the processor answers the same
		if again := mp.ToLines(); !bytes.Equal(again, got) {
			gp, _, _ := codec.Decode(got)
			ap, _, _ := codec.Decode(again)
			c.Violate("menu-processor:second-encoding-differs", fmt.Sprintf("entries %v: ToLines first gives %v, called again %v", accepted, codec.Strings(gp), codec.Strings(ap)), "menu-processor", map[string]interface{}{"entries": fmt.Sprint(all)})
			return
		}
		c.EvalN(1, 1)
		c.Count("menu_processor_sequences", 1)
		c.Count("menu_processor_entries_refused", int64(len(all)-len(accepted)))
		if !bytes.Equal(got, want) {
			gp, _, _ := codec.Decode(got)
			wp, _, _ := codec.Decode(want)
			c.Violate("menu-processor:refused-entry-encoded", fmt.Sprintf("entries %v, %d of them refused: the processor that saw them all encodes %v, one that was given the accepted ones only %v", all, len(all)-len(accepted), codec.Strings(gp), codec.Strings(wp)), "menu-processor", map[string]interface{}{"entries": fmt.Sprint(all)})
			return
		}
	}
}
