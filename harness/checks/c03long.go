package checks

import (
	"fmt"

	"verif/harness/app"
	"verif/harness/codec"
	"verif/harness/vk"
)

// c03LongTables: routing tables far longer than anything generated elsewhere (more than 2^16 and 2^17 INCMP lines
// behind one HALT, which is what a generated selector list - account numbers, voucher codes - compiles to). The
// input matches only a line near the end, nothing at all, the first line (everything after it is skipped), or a
// selector that occurs twice; the lock-step model decides where the session must be.
func c03LongTables(c *vk.Ctx) {
	lens := []int{65530, 65600, 70000}
	if !c.Quick() {
		lens = append(lens, 131100, 200003)
	}
	for i, n := range lens {
		if !c.Mine(i) {
			continue
		}
		key := fmt.Sprintf("longtable/%d", n)
		if !c.Want(key) {
			continue
		}
		r := c.RNG(key)
		a := app.NewApp()
		a.FlagCount = 1
		code := []codec.Ins{{Op: codec.MOUT, S1: "pick", S2: "0"}, {Op: codec.HALT}}
		dupAt := n - r.Range(2, 40)
		for k := 0; k < n; k++ {
			sel := fmt.Sprint(k)
			if k == dupAt {
				sel = "7" // a second line for selector 7, with another target: the first one routes
			}
			code = append(code, codec.Ins{Op: codec.INCMP, S1: fmt.Sprintf("t%d", (k+k/7)%3), S2: sel})
		}
		a.AddNode(&app.Node{Name: "root", Template: "the long table", Code: code})
		for t := 0; t < 3; t++ {
			a.AddNode(&app.Node{Name: fmt.Sprintf("t%d", t), Template: fmt.Sprintf("target %d", t), Code: []codec.Ins{{Op: codec.MOUT, S1: "back", S2: "b"}, {Op: codec.HALT}, {Op: codec.INCMP, S1: "_", S2: "b"}}})
		}
		a.AddNode(&app.Node{Name: "_catch", Template: "catch page", Code: []codec.Ins{{Op: codec.HALT}, {Op: codec.INCMP, S1: "_", S2: "*"}}})
		a.Finalize()
		cfg := app.Config{FlagCount: 1, SessionId: "ses1", Root: "root"}
		hist := []string{"", fmt.Sprint(n - 1), "b", "0", "b", "nomatch", "x", "7", "b", fmt.Sprint(dupAt + 1), "b", fmt.Sprint(n)}
		c.Begin(key)
		for _, drv := range []string{"long", "mem", "resume"} {
			d, st := monitorSession(c, a, cfg, hist, sessOpts{Driver: drv})
			c.Eval(vk.Hash64(key, drv), true)
			c.Count("long_table_requests", int64(st.Requests))
			c.Max("max_routing_table_lines", int64(n))
			if d == nil {
				continue
			}
			if d.Kind == "harness" {
				c.Inconclusive(d.Msg)
				continue
			}
			sig := "longtable:" + d.Kind
			if d.Sub != "" {
				sig += ":" + d.Sub
			}
			c.Violate(sig, fmt.Sprintf("node with %d INCMP lines behind one HALT, step %d (%s driver): %s", n, d.Step, drv, d.Msg), key,
				map[string]interface{}{"driver": drv, "config": cfg, "table_lines": n, "second_line_for_selector_7_at": dupAt, "history": printableHist(hist[:minInt(len(hist), d.Step+1)]), "transcript": st.Transcript})
		}
	}
}
