package checks

import (
	"fmt"

	"verif/harness/app"
	"verif/harness/vk"
)

// c18DbStack: the deployment of the repository's examples — bytecode, templates with their translations and menu
// labels in a key-value store behind resource.DbResource, functions registered with AddLocalFunc — must show the
// client exactly what the same application shows through the recording resource (whose lookups are checked against
// the model by the main leg): the selected language has to travel from the session state through the context into
// the store's key derivation (translation key, default key as fall-back) on every template and label lookup, in
// long-lived and persisted operation.
func c18DbStack(c *vk.Ctx) {
	n := c.N(240, 8000)
	type variant struct{ res, ses string }
	variants := []variant{{"mem", ""}, {"fs", ""}, {"fs", "mem"}, {"mem", "fs"}, {"mem", "same"}, {"fs", "same"}}
	for i := 0; i < n; i++ {
		if !c.Mine(i) {
			continue
		}
		key := fmt.Sprintf("dbstack/%d", i)
		if !c.Want(key) {
			continue
		}
		r := c.RNG(key)
		p := c07Profile(r)
		p.Lang = true
		p.Terminate = false
		a := app.Generate(r, p)
		cfg := genConfig(r, a, "ses1")
		if a.Trans["nor"] != nil && r.Chance(1, 3) {
			cfg.Language = vk.Pick(r, []string{"nor", "swa", "eng", "fra"})
		}
		hist := a.History(r, r.Range(4, 18))
		c.Begin(key)
		ref := app.NewLongLived(a, cfg)
		var want []*app.Obs
		langs := map[string]bool{}
		for _, in := range hist {
			o := ref.Request([]byte(in))
			if ref.Res.Failures > 0 {
				// the text of a resource error is the resource's own wording; it is shown on the page and counts
				// against the page size, so from here on the two deployments may legitimately differ
				c.Count("dbstack_histories_cut_at_a_resource_error", 1)
				break
			}
			want = append(want, o)
			for _, e := range o.Events {
				if e.Kind == "template" || e.Kind == "menu" {
					langs[e.Lang] = true
				}
			}
			if o.ExecErr != "" || o.FlushErr != "" || o.Panic != "" || !o.Cont {
				break
			}
		}
		ref.Close()
		v := variants[i%len(variants)]
		d, err := app.NewDbStack(a, cfg, v.res, v.ses)
		if err != nil {
			c.Inconclusive(err.Error())
			return
		}
		if len(d.Skipped) > 0 {
			d.Close()
			c.Count("dbstack_cases_skipped(non-ISO language table)", 1)
			continue
		}
		c.Eval(vk.Hash64(key), len(langs) >= 2)
		c.Count("dbstack_histories", 1)
		for _, f := range a.Funcs {
			if f.Kind == "static" {
				c.Count("dbstack_static_loads_kept_in_the_store", 1)
				c.Count("dbstack_static_load_translations", int64(len(f.Trans)))
			}
		}
		c.Count("dbstack_histories:"+v.res+"-resources/"+map[bool]string{true: "long-lived", false: v.ses + "-sessions"}[v.ses == ""], 1)
		for step, w := range want {
			g := d.Request([]byte(hist[step]))
			c.Count("dbstack_requests", 1)
			if g.Panic != "" && w.Panic == "" {
				c.Violate("dbstack:"+g.PanicSig, fmt.Sprintf("step %d input %s: panic with DbResource: %s", step, printable(hist[step]), g.Panic), key,
					map[string]interface{}{"app": a.Describe(), "config": cfg, "history": printableHist(hist[:step+1]), "variant": v})
				break
			}
			gout, wout := g.Out, w.Out
			if g.FinishErr != "" {
				c.Violate("dbstack:finish-fails:"+v.res+"/"+v.ses, fmt.Sprintf("step %d input %s (%s resource store, sessions %q): Finish fails: %s", step, printable(hist[step]), v.res, v.ses, g.FinishErr), key,
					map[string]interface{}{"app": a.Describe(), "config": cfg, "history": printableHist(hist[:step+1]), "variant": v})
				break
			}
			if (g.ExecErr == "") != (w.ExecErr == "") || (g.FlushErr == "") != (w.FlushErr == "") || g.Cont != w.Cont || gout != wout {
				comp := "result"
				if gout != wout {
					comp = "output:" + diffComponent(wout, gout)
				}
				c.Violate("dbstack-differs:"+comp, fmt.Sprintf("step %d input %s (%s resource store, sessions %q): through resource.DbResource %s | through the recording resource %s", step, printable(hist[step]), v.res, v.ses, g.Brief(), w.Brief()), key,
					map[string]interface{}{"app": a.Describe(), "config": cfg, "history": printableHist(hist[:step+1]), "variant": v})
				break
			}
		}
		d.Close()
	}
}
