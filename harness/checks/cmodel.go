package checks

import (
	"verif/harness/app"
	"verif/harness/vk"
)

func kinds(l ...string) map[string]bool {
	m := map[string]bool{}
	for _, k := range l {
		m[k] = true
	}
	return m
}

const modelAssumption = "trusted base: the SpecVM reference model (harness/specvm), written from doc/texinfo and the property statements; only this property's projection of its prediction is compared, don't-care where documentation is silent (state after a failed request, internal flags, paginated pages)"

// C04 — navigation stack and page index follow the move table
func C04() *vk.Check {
	mc := &modelCheck{ID: "C04", Kinds: kinds("position", "exec-error"), Drivers: []string{"long", "mem", "fs"}, HistLen: [2]int{4, 40}, N: [2]int{4000, 120000},
		Profile: func(r *vk.RNG) app.Profile {
			p := specProfile(r)
			p.MaxNodes = 9
			p.TailMove = true
			p.Relative = true
			return p
		},
		NonTrivial: func(s *sessStats) bool { return s.Moves >= 3 && s.MaxDepth >= 2 }}
	return &vk.Check{ID: "C04", Level: "exploration", MinEvaluations: 300, Shards: func(string) int { return 16 }, Run: mc.run,
		Rule:        "reference-model monitor: generated node graphs (depth up to the history length, all five relative targets issued from MOVE, INCMP and CATCH, lateral moves on non-paged nodes, failing moves at the edges) are served with histories of 4..40 inputs by the long-lived engine and by the persisted driver (mem, fs); after every request the live State and the decoded stored snapshot must show exactly the node path and page index the documented move table gives for the moves the model executed; a failing move must make the request fail. distinct = hash(app, history, driver); non-trivial = at least 3 moves and depth >= 2.",
		Assumptions: []string{modelAssumption, "a failing move ends the history (the table says nothing about the state after a failure)"}}
}

// C03 — input routed by the first matching INCMP, once
func C03() *vk.Check {
	mc := &modelCheck{ID: "C03", Kinds: kinds("position", "code-events", "page-text", "cont"), Drivers: []string{"long", "mem"}, HistLen: [2]int{2, 12}, N: [2]int{8000, 200000},
		Profile: func(r *vk.RNG) app.Profile {
			p := specProfile(r)
			p.Interleave = true
			p.MultiHalt = true
			p.Lang = false
			p.Terminate = false
			return p
		},
		NonTrivial: func(s *sessStats) bool { return s.Moves >= 2 }}
	return &vk.Check{ID: "C03", Level: "exploration", MinEvaluations: 300, Shards: func(string) int { return 16 }, Run: mc.run,
		Rule:        "reference-model monitor: generated programs with 1..8 INCMP lines per HALT over a small selector alphabet (duplicates frequent), wildcard at any position, named and relative targets, non-INCMP instructions interleaved, several HALTs per node; inputs = selectors of the node, of other nodes, junk, empty. After every request: the nodes fetched (GetCode log, in order) and the resulting position equal the model's first-match-once routing; with no match the session is on _catch and the page shows \"invalid input: '<input>'\"; '<' on page 0 counts as no match. distinct = hash(app, history, driver); non-trivial = at least 2 moves.",
		Assumptions: []string{modelAssumption}}
}

// C05 — loaded symbols live as long as their stack level
func C05() *vk.Check {
	mc := &modelCheck{ID: "C05", Kinds: kinds("calls", "cache", "page-text", "over-limit", "exec-error"), Drivers: []string{"long", "mem", "fs"}, HistLen: [2]int{4, 30}, N: [2]int{4000, 120000},
		Profile: func(r *vk.RNG) app.Profile {
			p := specProfile(r)
			p.BigValues = r.Chance(1, 2)
			p.EmptyResults = true
			p.FixedSizes = r.Chance(1, 3)
			p.Lang = false
			return p
		},
		NonTrivial: func(s *sessStats) bool { return s.Calls >= 2 && s.MaxDepth >= 2 }}
	return &vk.Check{ID: "C05", Level: "exploration", MinEvaluations: 300, Shards: func(string) int { return 16 }, Run: mc.run,
		Rule:        "reference-model monitor: programs that LOAD the same symbol at several depths, re-enter nodes, RELOAD symbols loaded higher up, RELOAD to empty, MAP then move, with declared sizes {1..65535} and results of length {0, limit-1, limit, limit+1, 65536+limit±, 70000}; histories descend, ascend (_ ^) and re-enter. Per request the external-call log [(sym,input)] must equal the model's; after each request the real cache (keys, values, limits per scope; live and decoded stored snapshot) must equal the model's scopes; every non-paginated page must equal the model's text (so every sym#n shown is the current one and only mapped symbols are shown); no value longer than its limit may be stored. distinct = hash(app, history, driver); non-trivial = at least 2 external calls and depth >= 2.",
		Assumptions: []string{modelAssumption}}
}

// C18 — language reaches every lookup and survives the session
func C18() *vk.Check {
	mc := &modelCheck{ID: "C18", Kinds: kinds("lang-event", "lang-state", "page-text"), Drivers: []string{"long", "mem", "fs", "pg"}, HistLen: [2]int{3, 15}, N: [2]int{4000, 100000},
		Profile: func(r *vk.RNG) app.Profile {
			p := specProfile(r)
			p.Lang = true
			p.Terminate = false
			p.Croak = false
			return p
		},
		NonTrivial: func(s *sessStats) bool { return len(s.Langs) >= 2 }}
	return &vk.Check{ID: "C18", Level: "exploration", MinEvaluations: 300, Shards: func(string) int { return 16 }, Run: mc.run,
		Rule:        "reference-model monitor: applications with a language switcher (results cycle through valid 2- and 3-letter codes, invalid strings and the empty string, returned with the LANG flag) loaded/reloaded at arbitrary points, translations present for random subsets of templates and labels, language configured or not. Every GetCode/FuncFor/function/GetTemplate/GetMenu callback of the session must carry exactly the model's language (context value \"Language\"), State.Language in the live state and decoded stored snapshot must equal it, and each page must equal the text composed from the translation table (translation if present, default otherwise). distinct = hash(app, history, driver); non-trivial = lookups under at least two different languages were observed.",
		Assumptions: []string{modelAssumption, "an empty string returned with LANG is documented as 'reset': what lookups carry afterwards is don't-care until the next valid code"}}
}

func histWithClears(r *vk.RNG, a *app.App, lo, hi int) []string {
	h := a.History(r, r.Range(lo, hi))
	var out []string
	for i, in := range h {
		out = append(out, in)
		if i > 2 && r.Chance(1, 6) {
			out = append(out, clearToken)
		}
	}
	return out
}

// C20 — session end restarts cleanly; termination stays blocked
func C20() *vk.Check {
	mc := &modelCheck{ID: "C20", Kinds: kinds("cont", "position", "cache", "flags", "terminate-flag", "unexpected-output", "calls", "page-text", "code-events"),
		Drivers: []string{"mem", "fs", "pg"}, PastEnd: true, N: [2]int{3000, 80000},
		Profile: func(r *vk.RNG) app.Profile {
			p := specProfile(r)
			p.EndNodes = true
			p.Terminate = r.Chance(1, 2)
			p.Croak = r.Chance(1, 3)
			p.Lang = false
			p.MaxNodes = 6
			return p
		},
		Hist:       func(r *vk.RNG, a *app.App) []string { return histWithClears(r, a, 6, 30) },
		NonTrivial: func(s *sessStats) bool { return s.Restarts >= 1 || s.Blocked >= 1 }}
	return &vk.Check{ID: "C20", Level: "exploration", MinEvaluations: 300, Shards: func(string) int { return 16 }, Run: mc.run,
		Rule: "reference-model monitor, persisted driver over mem, fs and the Postgres fake: applications with end nodes of both kinds (code ends right after HALT / ends without HALT) at depth 0..8, functions that set TERMINATE, CROAK, client flags set along the way, symbols loaded at several levels; histories continue past the end of the session over several end/restart cycles, and TERMINATE is cleared in the stored state (as client code would) at PRNG points. " +
			"Graceful end: the final page plus exit value is delivered, stop is reported, the next request starts at the entry node with an empty cache and the client flags kept. Other end / TERMINATE: stop is reported and every later request produces no output, makes no callback and does not move until the flag is cleared; afterwards the session proceeds. distinct = hash(app, history, driver); non-trivial = at least one restart or one blocked request was observed.",
		Assumptions: []string{modelAssumption, "what the terminating request itself renders is unspecified"}}
}
