package checks

import (
	"context"
	"fmt"
	"sort"

	"git.defalsify.org/vise.git/cache"
	"git.defalsify.org/vise.git/db"
	"git.defalsify.org/vise.git/state"

	"verif/harness/app"
	"verif/harness/codec"
	"verif/harness/vk"
)

func kinds(l ...string) map[string]bool {
	m := map[string]bool{}
	for _, k := range l {
		m[k] = true
	}
	return m
}

const modelAssumption = "trusted base: the SpecVM reference model (harness/specvm), written from doc/texinfo and the property statements; only this property's projection of its prediction is compared, don't-care where documentation is silent (state after a failed request, internal flags, paginated pages)"

// C04 — navigation stack and page index follow the move table
func C04() *vk.Check {
	mc := &modelCheck{ID: "C04", Kinds: kinds("position", "exec-error", "stored-unreadable"), Drivers: []string{"long", "mem", "fs", "resume"}, HistLen: [2]int{4, 40}, N: [2]int{4000, 120000},
		Profile: func(r *vk.RNG) app.Profile {
			p := specProfile(r)
			p.MaxNodes = 9
			p.TailMove = true
			p.Relative = true
			return p
		},
		NonTrivial: func(s *sessStats) bool { return s.Moves >= 3 && s.MaxDepth >= 2 }}
	return &vk.Check{ID: "C04", Level: "exploration", MinEvaluations: 300, Shards: func(string) int { return 16 }, Run: mc.run,
		Rule:        "reference-model monitor: generated node graphs (depth up to the history length, all five relative targets issued from MOVE, INCMP and CATCH, lateral moves on non-paged nodes, failing moves at the edges) are served with histories of 4..40 inputs by the long-lived engine and by the persisted driver (mem, fs); after every request the live State and the decoded stored snapshot must show exactly the node path and page index the documented move table gives for the moves the model executed; a failing move must make the request fail. distinct = hash(app, history, driver); non-trivial = at least 3 moves and depth >= 2.",
		Assumptions: []string{modelAssumption, "a failing move ends the history (the table says nothing about the state after a failure)"}}
}

// C03 — input routed by the first matching INCMP, once
func C03() *vk.Check {
	mc := &modelCheck{ID: "C03", Kinds: kinds("position", "code-events", "page-text", "cont"), Drivers: []string{"long", "mem", "resume"}, HistLen: [2]int{2, 12}, N: [2]int{8000, 200000},
		Profile: func(r *vk.RNG) app.Profile {
			p := specProfile(r)
			p.Interleave = true
			p.MultiHalt = true
			p.Lang = false
			p.Terminate = false
			return p
		},
		NonTrivial: func(s *sessStats) bool { return s.Moves >= 2 }}
	return &vk.Check{ID: "C03", Level: "exploration", MinEvaluations: 300, Shards: func(string) int { return 16 }, Run: func(c *vk.Ctx) { mc.run(c); c03Metamorphic(c); c03LongTables(c) },
		Rule: "reference-model monitor: generated programs with 1..8 INCMP lines per HALT over a small selector alphabet (duplicates frequent), wildcard at any position, named and relative targets, non-INCMP instructions interleaved, several HALTs per node; inputs = selectors of the node, of other nodes, junk, empty. After every request: the nodes fetched (GetCode log, in order) and the resulting position equal the model's first-match-once routing; with no match the session is on _catch and the page shows \"invalid input: '<input>'\"; '<' on page 0 counts as no match. distinct = hash(app, history, driver); non-trivial = at least 2 moves. " +
			"(b) model-free metamorphic oracle: a generated session is served to some HALT, its stored pending bytecode is decoded, and for an input x whose first matching INCMP is at position m the stored code is rewritten (as client code could) — a non-matching INCMP before m deleted, two of them swapped, extra INCMP lines (same selector, wildcard, other) inserted between m and the next HALT — and x is sent to a copy of the session: output, continue flag and position must equal the unmodified copy's. (c) routing tables of more than 2^16 (thorough: 2^17) INCMP lines behind one HALT, input matching the last lines, the first, none, a duplicated selector; lock-step model on three drivers.",
		Assumptions: []string{modelAssumption}}
}

// C05 — loaded symbols live as long as their stack level
func C05() *vk.Check {
	mc := &modelCheck{ID: "C05", Kinds: kinds("calls", "cache", "page-text", "over-limit", "exec-error", "stored-unreadable"), Drivers: []string{"long", "mem", "fs", "resume"}, HistLen: [2]int{4, 30}, N: [2]int{4000, 120000},
		// the persisted drivers go on past the end of the session (restart after a graceful end, TERMINATE cleared by the
		// client after CROAK / dead ends): every purge of the cache must be followed by fresh loads
		PastEnd: true,
		Hist:    func(r *vk.RNG, a *app.App) []string { return histWithClears(r, a, 4, 30) },
		Profile: func(r *vk.RNG) app.Profile {
			p := specProfile(r)
			p.Croak = r.Chance(1, 2)
			p.BigValues = r.Chance(1, 2)
			p.EmptyResults = true
			p.FixedSizes = r.Chance(1, 3)
			p.Lang = false
			return p
		},
		NonTrivial: func(s *sessStats) bool { return s.Calls >= 2 && s.MaxDepth >= 2 }}
	return &vk.Check{ID: "C05", Level: "exploration", MinEvaluations: 300, Shards: func(string) int { return 16 }, Run: func(c *vk.Ctx) { mc.run(c); c05Wide(c) },
		Rule:        "reference-model monitor: programs that LOAD the same symbol at several depths, re-enter nodes, RELOAD symbols loaded higher up, RELOAD to empty, MAP then move, with declared sizes {1..65535} and results of length {0, limit-1, limit, limit+1, 65536+limit±, 70000}; histories descend, ascend (_ ^), re-enter, and in the persisted drivers continue past the end of the session (graceful restart; CROAK purge and dead ends with TERMINATE cleared by the client). Per request the external-call log [(sym,input)] must equal the model's; after each request the real cache (keys, values, limits per scope; live and decoded stored snapshot) must equal the model's scopes; every non-paginated page must equal the model's text (so every sym#n shown is the current one and only mapped symbols are shown); no value longer than its limit may be stored. Plus two sessions far wider than any generated one (1100 symbols at one level; 110 levels with twelve each). distinct = hash(app, history, driver); non-trivial = at least 2 external calls and depth >= 2.",
		Assumptions: []string{modelAssumption}}
}

// C18 — language reaches every lookup and survives the session
func C18() *vk.Check {
	mc := &modelCheck{ID: "C18", Kinds: kinds("lang-event", "lang-state", "page-text"), Drivers: []string{"long", "mem", "fs", "pg"}, HistLen: [2]int{3, 15}, N: [2]int{4000, 100000},
		Profile: func(r *vk.RNG) app.Profile {
			p := specProfile(r)
			p.Lang = true
			p.Terminate = false
			p.Croak = false
			return p
		},
		Config: func(r *vk.RNG, a *app.App, cfg *app.Config) {
			if r.Chance(1, 3) {
				// an external function installed with Engine.WithFirst: called by every new engine before the
				// session's code, it must see the language the session was saved with
				a.Funcs["_first"] = &app.FuncSpec{Sym: "_first", Kind: "idlang"}
				cfg.First = true
			}
		},
		NonTrivial: func(s *sessStats) bool { return len(s.Langs) >= 2 }}
	return &vk.Check{ID: "C18", Level: "exploration", MinEvaluations: 300, Shards: func(string) int { return 16 }, Run: func(c *vk.Ctx) { mc.run(c); c18Gettext(c); c18DbStack(c) },
		Rule:        "reference-model monitor: applications with a language switcher (results cycle through valid 2- and 3-letter codes, invalid strings and the empty string, returned with the LANG flag) loaded/reloaded at arbitrary points, translations present for random subsets of templates and labels, language configured or not, in a third of the cases with a language-dependent pre-VM function (Engine.WithFirst). Every GetCode/FuncFor/function/GetTemplate/GetMenu callback of the session must carry exactly the model's language (context value \"Language\"), State.Language in the live state and decoded stored snapshot must equal it, and each page must equal the text composed from the translation table (translation if present, default otherwise). distinct = hash(app, history, driver); non-trivial = lookups under at least two different languages were observed. Gettext leg: resource.PoResource over generated locale trees (key -> default text for random subsets of template and menu keys, default text -> translation for random subsets per registered language) against a dictionary model: every (key, kind, context language) lookup - language absent, default, registered, never registered - must return the translation if one exists and the default-language text otherwise. DbResource leg: the same generated applications stored in a key-value store (mem, fs) behind resource.DbResource (bytecode, templates + translations, labels + translations, functions via AddLocalFunc), long-lived and persisted; every request must answer exactly as through the recording resource.",
		Assumptions: []string{modelAssumption, "an empty string returned with LANG is documented as 'reset': what lookups carry afterwards is don't-care until the next valid code"}}
}

// c05Wide: sessions that hold far more symbols than any generated one (one level with 1100, 110 levels with twelve
// each), served per request: every symbol must stay loaded for as long as its level lives.
func c05Wide(c *vk.Ctx) {
	for i, shape := range [][2]int{{3, 1100}, {110, 12}} {
		key := fmt.Sprintf("wide/%dx%d", shape[0], shape[1])
		if !c.Mine(i+3) || !c.Want(key) {
			continue
		}
		a, cfg, hist := wideApp(shape[0], shape[1])
		c.Begin(key)
		for _, drv := range []string{"mem", "long"} {
			d, st := monitorSession(c, a, cfg, hist, sessOpts{Driver: drv})
			c.Eval(vk.Hash64(key, drv), true)
			c.Count("wide_session_requests", int64(st.Requests))
			c.Max("max_symbols_visible_in_a_wide_session", int64(shape[0]*shape[1]))
			if d == nil {
				continue
			}
			if d.Kind == "harness" {
				c.Inconclusive(d.Msg)
				continue
			}
			sig := "wide:" + d.Kind
			if d.Sub != "" {
				sig += ":" + d.Sub
			}
			c.Violate(sig, fmt.Sprintf("%d levels with %d symbols each, step %d (%s driver): %s", shape[0], shape[1], d.Step, drv, d.Msg), key,
				map[string]interface{}{"driver": drv, "config": cfg, "levels": shape[0], "symbols_per_level": shape[1], "history": printableHist(hist[:minInt(len(hist), d.Step+1)])})
		}
	}
}

func histWithClears(r *vk.RNG, a *app.App, lo, hi int) []string {
	h := a.History(r, r.Range(lo, hi))
	var out []string
	for i, in := range h {
		out = append(out, in)
		if i > 2 && r.Chance(1, 6) {
			out = append(out, clearToken)
		}
	}
	return out
}

// C20 — session end restarts cleanly; termination stays blocked
func C20() *vk.Check {
	mc := &modelCheck{ID: "C20", Kinds: kinds("exec-error", "cont", "position", "cache", "flags", "terminate-flag", "unexpected-output", "calls", "page-text", "code-events"),
		Drivers: []string{"mem", "fs", "pg"}, PastEnd: true, N: [2]int{3000, 80000},
		Profile: func(r *vk.RNG) app.Profile {
			p := specProfile(r)
			p.EndNodes = true
			p.Hostile = r.Chance(1, 3) // functions that name reserved flags too, also in front of TERMINATE
			p.Terminate = r.Chance(1, 2)
			p.Croak = r.Chance(1, 3)
			p.Lang = false
			p.MaxNodes = 6
			p.TailCall = true
			return p
		},
		Hist: func(r *vk.RNG, a *app.App) []string { return histWithClears(r, a, 6, 30) },
		Config: func(r *vk.RNG, a *app.App, cfg *app.Config) {
			if r.Chance(1, 4) {
				// a side-effect free pre-VM function (Engine.WithFirst): it must not unblock a terminated session
				a.Funcs["_first"] = &app.FuncSpec{Sym: "_first", Kind: "idlang"}
				cfg.First = true
			}
		},
		NonTrivial: func(s *sessStats) bool { return s.Restarts >= 1 || s.Blocked >= 1 }}
	return &vk.Check{ID: "C20", Level: "exploration", MinEvaluations: 300, Shards: func(string) int { return 16 }, Run: mc.run, Serial: tracedBuildLeg("C20", "hist/1*"),
		Rule: "reference-model monitor, persisted driver over mem, fs and the Postgres fake: applications with end nodes of both kinds (code ends right after HALT / ends without HALT) at depth 0..8, functions that set TERMINATE, CROAK, client flags set along the way, symbols loaded at several levels; histories continue past the end of the session over several end/restart cycles, and TERMINATE is cleared in the stored state (as client code would) at PRNG points. " +
			"Graceful end: the final page plus exit value is delivered, stop is reported, the next request starts at the entry node with an empty cache and the client flags kept. Other end / TERMINATE: stop is reported and every later request produces no output, makes no callback and does not move until the flag is cleared; afterwards the session proceeds. distinct = hash(app, history, driver); non-trivial = at least one restart or one blocked request was observed.",
		Assumptions: []string{modelAssumption, "what the terminating request itself renders is unspecified"}}
}

// ---------------------------------------------------------------------------------------------
// C03 (b): model-free metamorphic oracle on the pending INCMP list

func c03Metamorphic(c *vk.Ctx) {
	n := c.N(1500, 60000)
	for i := 0; i < n; i++ {
		if !c.Mine(i) {
			continue
		}
		key := fmt.Sprintf("meta/%d", i)
		if !c.Want(key) {
			continue
		}
		r := c.RNG(key)
		p := c07Profile(r)
		p.Lang = false
		p.Terminate = false
		a := app.Generate(r, p)
		cfg := genConfig(r, a, "base")
		hist := a.History(r, r.Range(1, 10))
		c.Begin(key)
		b, err := app.NewBackend("mem")
		if err != nil {
			continue
		}
		raw, _ := b.Handle()
		pr := app.NewPerRequest(a, cfg, b)
		pr.SkipStoredRead = true
		ok := true
		for _, in := range hist {
			o := pr.Request([]byte(in))
			if !o.Cont || o.ExecErr != "" || o.FlushErr != "" || o.Panic != "" {
				ok = false
				break
			}
		}
		if !ok {
			continue
		}
		ctx := context.Background()
		raw.SetPrefix(db.DATATYPE_STATE)
		snap, err := raw.Get(ctx, []byte("base"))
		if err != nil {
			continue
		}
		st, _, serr := pr.ReadStored()
		if serr != "" || st == nil {
			continue
		}
		pending, class, _ := codec.Decode(st.Code)
		if class != codec.Valid {
			continue
		}
		// the INCMP block: instructions up to the next HALT
		end := len(pending)
		for k, ins := range pending {
			if ins.Op == codec.HALT {
				end = k
				break
			}
		}
		al := append(a.Alphabet(), "zz")
		x := vk.Pick(r, al)
		m := -1
		for k := 0; k < end; k++ {
			if pending[k].Op == codec.INCMP && (pending[k].S2 == x || pending[k].S2 == "*") {
				m = k
				break
			}
		}
		if m < 0 {
			continue
		}
		calls := cloneCalls(pr.Res.Calls)
		serve := func(sid string, code []codec.Ins) *app.Obs {
			raw.SetPrefix(db.DATATYPE_STATE)
			raw.Put(ctx, []byte(sid), snap)
			cf := cfg
			cf.SessionId = sid
			d := app.NewPerRequest(a, cf, b)
			d.Res.Calls = cloneCalls(calls)
			if code != nil {
				if err := d.Mutate(func(s *state.State, ca *cache.Cache) { s.SetCode(codec.EncodeAll(code)) }); err != nil {
					return nil
				}
			}
			return d.Request([]byte(x))
		}
		base := serve("ref", nil)
		if base == nil || base.Panic != "" {
			continue
		}
		c.Eval(vk.Hash64(key), true)
		c.Count("metamorphic_bases", 1)
		nodes := []string{}
		for name := range a.Nodes {
			if name != "_catch" {
				nodes = append(nodes, name)
			}
		}
		sort.Strings(nodes)
		variant := 0
		try := func(kind string, code []codec.Ins) {
			variant++
			o := serve(fmt.Sprintf("v%d", variant), code)
			if o == nil {
				return
			}
			c.Count("metamorphic_variants", 1)
			same := o.Out == base.Out && o.Cont == base.Cont && (o.ExecErr == "") == (base.ExecErr == "") && (o.FlushErr == "") == (base.FlushErr == "") &&
				o.State != nil && base.State != nil && fmt.Sprint(o.State.ExecPath, o.State.SizeIdx) == fmt.Sprint(base.State.ExecPath, base.State.SizeIdx)
			if !same {
				c.Violate("metamorphic:"+kind, fmt.Sprintf("input %q, pending block %v (first match at %d): %s changed the outcome: %s | unchanged: %s", x, codec.Strings(pending[:end]), m, kind, o.Brief(), base.Brief()), key,
					map[string]interface{}{"app": a.Describe(), "config": cfg, "history": hist, "input": x, "pending": codec.Strings(pending), "variant_pending": codec.Strings(code)})
			}
		}
		// T1: delete / reorder INCMP lines before the first matching one (none of them matches x)
		var before []int
		for k := 0; k < m; k++ {
			if pending[k].Op == codec.INCMP {
				before = append(before, k)
			}
		}
		if len(before) > 0 {
			del := vk.Pick(r, before)
			// a line that cannot match still raises READIN (documented: from the first INCMP on), which failing
			// instructions, CROAK and the end of the code look at. Deleting it is neutral only if READIN is raised at
			// the same point anyway: the line is not the first INCMP of the block, or the next instruction is an INCMP.
			if del != before[0] || pending[del+1].Op == codec.INCMP {
				code := append(append([]codec.Ins{}, pending[:del]...), pending[del+1:]...)
				try("delete-nonmatching-incmp-before-the-match", code)
			} else {
				c.Count("metamorphic_deletions_skipped(would move the point where READIN is raised)", 1)
			}
		}
		if len(before) > 1 {
			code := append([]codec.Ins{}, pending...)
			i1, i2 := before[0], before[len(before)-1]
			code[i1], code[i2] = code[i2], code[i1]
			try("swap-nonmatching-incmps-before-the-match", code)
		}
		// T2: extra INCMP lines after the first matching one, before the next HALT: same selector, wildcard, other
		for _, sel := range []string{x, "*", "q9"} {
			extra := codec.Ins{Op: codec.INCMP, S1: vk.Pick(r, nodes), S2: sel}
			if extra.S1 == pending[m].S1 {
				extra.S1 = "_catch2x"
				continue
			}
			pos := r.Range(m+1, end)
			code := append(append(append([]codec.Ins{}, pending[:pos]...), extra), pending[pos:]...)
			try("insert-incmp-after-the-match", code)
		}
		b.Cleanup()
	}
}
