package checks

import (
	"bytes"
	"fmt"
	"regexp"
	"runtime"
	"strconv"
	"strings"
	"sync"

	"git.defalsify.org/vise.git/asm"

	"verif/harness/codec"
	"verif/harness/vk"
)

// ---------------------------------------------------------------------------------------------
// C16 — the assembler emits exactly what was written

type c16line struct {
	Mnemonic string   // opcode or batch code
	Args     []string // tokens exactly as written
}

type c16src struct {
	Lines  []c16line
	Text   string
	Expect []codec.Ins
	Exotic map[string]bool // token classes present that are known trouble makers
}

var (
	reLeadingZeros  = regexp.MustCompile(`^0[0-9]+$`)
	reDigitsLetters = regexp.MustCompile(`^[0-9]+[a-zA-Z][a-zA-Z0-9]*$`)
	reUpperInitial  = regexp.MustCompile(`^[A-Z]`)
	reDigitsOnly    = regexp.MustCompile(`^[0-9]+$`)
)

// tokenClass classifies a token as written in the source.
func tokenClass(tok string) string {
	switch {
	case reLeadingZeros.MatchString(tok):
		return "leading-zeros"
	case reDigitsLetters.MatchString(tok):
		return "digits-then-letters"
	case reUpperInitial.MatchString(tok):
		return "uppercase-initial"
	case reDigitsOnly.MatchString(tok):
		if _, err := strconv.ParseUint(tok, 10, 32); err != nil {
			return "digits-beyond-uint32"
		}
		return "plain"
	}
	return "plain"
}

type c16gen struct {
	r      *vk.RNG
	exotic bool   // allow one exotic token class in this source
	class  string // the single exotic class this source may contain (so findings never mask each other)
	seen   map[string]bool
}

func (g *c16gen) symbol() string {
	r := g.r
	const lower = "abcdefghijklmnopqrstuvwxyz"
	const upper = "ABCDEFGHIJKLMNOPQRSTUVWXYZ"
	const rest = "abcdefghijklmnopqrstuvwxyzABCDEFGHIJKLMNOPQRSTUVWXYZ0123456789_"
	l := r.Range(1, 10)
	if r.Chance(1, 30) {
		l = vk.Pick(r, []int{255, 254, 64, 33})
	}
	b := make([]byte, l)
	if g.exotic && g.class == "uppercase-initial" && r.Chance(1, 6) {
		b[0] = upper[r.Intn(26)]
	} else {
		b[0] = lower[r.Intn(26)]
	}
	for i := 1; i < l; i++ {
		b[i] = rest[r.Intn(len(rest))]
	}
	return string(b)
}

func (g *c16gen) node() string {
	r := g.r
	switch r.Intn(10) {
	case 0:
		return vk.Pick(r, []string{".", "_", ">", "<", "^"})
	case 1:
		return "_catch"
	}
	return g.symbol()
}

func (g *c16gen) selector() string {
	r := g.r
	const digits = "0123456789"
	const letters = "abcdefghijklmnopqrstuvwxyz"
	const alnum = "abcdefghijklmnopqrstuvwxyzABCDEFGHIJKLMNOPQRSTUVWXYZ0123456789"
	rs := func(al string, n int) string {
		b := make([]byte, n)
		for i := range b {
			b[i] = al[r.Intn(len(al))]
		}
		return string(b)
	}
	if g.exotic && r.Chance(1, 3) {
		switch g.class {
		case "leading-zeros":
			return "0" + rs(digits, r.Range(1, 4))
		case "digits-then-letters":
			return rs(digits, r.Range(1, 3)) + rs(letters, 1) + rs(alnum, r.Intn(4))
		case "uppercase-initial":
			return rs("ABCDEFGHIJKLMNOPQRSTUVWXYZ", 1) + rs(alnum, r.Intn(4))
		case "digits-beyond-uint32":
			return vk.Pick(r, []string{"4294967296", "99999999999", "18446744073709551616"})
		}
	}
	switch r.Intn(6) {
	case 0:
		return "*"
	case 1:
		return rs(digits, 1)
	case 2:
		return strconv.Itoa(r.Range(1, 99999))
	case 3:
		return strconv.FormatUint(uint64(r.U32()), 10)
	case 4:
		return rs(letters, 1) + rs(alnum, r.Intn(6))
	}
	return rs(letters, r.Range(1, 4)) + rs(digits, r.Range(1, 3))
}

func (g *c16gen) note(tok string) string {
	c := tokenClass(tok)
	if c != "plain" {
		g.seen[c] = true
	}
	return tok
}

func genC16(r *vk.RNG, exotic bool) *c16src {
	g := &c16gen{r: r, exotic: exotic, seen: map[string]bool{}}
	g.class = vk.Pick(r, []string{"leading-zeros", "digits-then-letters", "uppercase-initial", "digits-beyond-uint32"})
	s := &c16src{Exotic: g.seen}
	n := r.Range(1, 25)
	num := func() uint32 { return randInt(r) }
	for i := 0; i < n; i++ {
		op := uint16(r.Range(1, 12))
		name := codec.OpName[op]
		ins := codec.Ins{Op: op}
		var args []string
		switch op {
		case codec.CATCH:
			ins.S1, ins.N, ins.Mode = g.note(g.node()), num(), r.Bool()
			args = []string{ins.S1, fmt.Sprint(ins.N), modeStr(ins.Mode)}
		case codec.CROAK:
			ins.N, ins.Mode = num(), r.Bool()
			args = []string{fmt.Sprint(ins.N), modeStr(ins.Mode)}
		case codec.LOAD:
			ins.S1, ins.N = g.note(g.symbol()), num()
			args = []string{ins.S1, fmt.Sprint(ins.N)}
		case codec.RELOAD, codec.MAP:
			ins.S1 = g.note(g.symbol())
			args = []string{ins.S1}
		case codec.MOVE:
			ins.S1 = g.note(g.node())
			args = []string{ins.S1}
		case codec.INCMP:
			ins.S1, ins.S2 = g.note(g.node()), g.note(g.selector())
			args = []string{ins.S1, ins.S2}
		case codec.MOUT, codec.MNEXT, codec.MPREV:
			ins.S1, ins.S2 = g.note(g.symbol()), g.note(g.selector())
			for ins.S2 == "*" {
				ins.S2 = g.note(g.selector())
			}
			args = []string{ins.S1, ins.S2}
		}
		s.Lines = append(s.Lines, c16line{name, args})
		s.Expect = append(s.Expect, ins)
	}
	// optional batch group at the end of the node's code
	if r.Chance(1, 2) {
		kinds := []string{"DOWN", "UP", "NEXT", "PREVIOUS"}
		m := r.Range(1, 6)
		var pre, post []codec.Ins
		for i := 0; i < m; i++ {
			k := vk.Pick(r, kinds)
			sel := g.note(g.selector())
			for sel == "*" {
				sel = g.note(g.selector())
			}
			label := g.note(g.symbol())
			switch k {
			case "DOWN":
				target := g.note(g.symbol())
				s.Lines = append(s.Lines, c16line{k, []string{target, sel, label}})
				pre = append(pre, codec.Ins{Op: codec.MOUT, S1: label, S2: sel})
				post = append(post, codec.Ins{Op: codec.INCMP, S1: target, S2: sel})
			case "UP":
				s.Lines = append(s.Lines, c16line{k, []string{sel, label}})
				pre = append(pre, codec.Ins{Op: codec.MOUT, S1: label, S2: sel})
				post = append(post, codec.Ins{Op: codec.INCMP, S1: "_", S2: sel})
			case "NEXT":
				s.Lines = append(s.Lines, c16line{k, []string{sel, label}})
				pre = append(pre, codec.Ins{Op: codec.MNEXT, S1: label, S2: sel})
				post = append(post, codec.Ins{Op: codec.INCMP, S1: ">", S2: sel})
			case "PREVIOUS":
				s.Lines = append(s.Lines, c16line{k, []string{sel, label}})
				pre = append(pre, codec.Ins{Op: codec.MPREV, S1: label, S2: sel})
				post = append(post, codec.Ins{Op: codec.INCMP, S1: "<", S2: sel})
			}
		}
		s.Expect = append(s.Expect, pre...)
		s.Expect = append(s.Expect, codec.Ins{Op: codec.HALT})
		s.Expect = append(s.Expect, post...)
	}
	// print
	var sb strings.Builder
	ws := func(min int) string {
		n := r.Range(min, min+2)
		if r.Chance(2, 3) {
			n = min
		}
		b := make([]byte, n)
		for i := range b {
			if r.Chance(1, 5) {
				b[i] = '\t'
			} else {
				b[i] = ' '
			}
		}
		return string(b)
	}
	for _, ln := range s.Lines {
		if r.Chance(1, 10) {
			sb.WriteString(ws(1))
		}
		sb.WriteString(ln.Mnemonic)
		for _, a := range ln.Args {
			sb.WriteString(ws(1))
			sb.WriteString(a)
		}
		if r.Chance(1, 8) {
			sb.WriteString(ws(1))
		}
		if r.Chance(1, 8) {
			if r.Chance(1, 2) {
				sb.WriteString(" ")
			}
			sb.WriteString("# " + vk.Pick(r, []string{"comment", "MOVE foo", "x 1 2", "", "#"}))
			if r.Chance(1, 40) {
				// a very long line (a pasted blob in a comment): no documented limit on line length
				sb.WriteString(strings.Repeat("=", vk.Pick(r, []int{4095, 4096, 65535, 65536, 70000, 200000})))
			}
		}
		if r.Chance(1, 12) {
			sb.WriteString("\r\n")
		} else {
			sb.WriteString("\n")
		}
		for r.Chance(1, 10) {
			sb.WriteString("\n")
		}
	}
	s.Text = sb.String()
	return s
}

func modeStr(m bool) string {
	if m {
		return "1"
	}
	return "0"
}

func exoticList(m map[string]bool) string {
	var l []string
	for _, k := range []string{"leading-zeros", "digits-then-letters", "uppercase-initial", "digits-beyond-uint32"} {
		if m[k] {
			l = append(l, k)
		}
	}
	if len(l) == 0 {
		return "clean-source"
	}
	return strings.Join(l, "+")
}

// checkC16 assembles the source and compares with the expectation.
func checkC16(s *c16src) (string, string) {
	w := bytes.NewBuffer(nil)
	var err error
	pv, stack := vk.Guard(func() { _, err = asm.Parse(s.Text, w) })
	if pv != nil {
		return vk.PanicSig(pv, stack) + ":" + exoticList(s.Exotic), fmt.Sprintf("asm.Parse panics: %v", pv)
	}
	if err != nil {
		return "rejected-valid:" + exoticList(s.Exotic), "asm.Parse rejects a source built from the documented grammar: " + err.Error()
	}
	got, class, _ := codec.Decode(w.Bytes())
	if class != codec.Valid && !(class == codec.Empty && len(s.Expect) == 0) {
		return "emitted-malformed:" + class + ":" + exoticList(s.Exotic), fmt.Sprintf("assembled bytecode is %s", class)
	}
	for i := range s.Expect {
		if i >= len(got) || got[i] != s.Expect[i] {
			e := s.Expect[i]
			g := "(missing)"
			what := "instruction-missing"
			tokc := "plain"
			if i < len(got) {
				g = got[i].String()
				switch {
				case got[i].Op != e.Op:
					what = "opcode"
				case got[i].S1 != e.S1:
					what = "first-arg"
					tokc = tokenClass(e.S1)
				case got[i].S2 != e.S2:
					what = "selector"
					tokc = tokenClass(e.S2)
				case got[i].N != e.N:
					what = "number:" + widthClass(e.N)
				default:
					what = "mode"
				}
			}
			if tokc == "plain" {
				what = codec.OpName[e.Op] + ":" + what // a plain token altered: keep the opcode in the signature
			}
			return "altered:" + what + ":" + tokc, fmt.Sprintf("instruction %d: written %q, emitted %q", i, e.String(), g)
		}
	}
	if len(got) > len(s.Expect) {
		return "extra-instructions", fmt.Sprintf("%d instructions written, %d emitted; first extra %q", len(s.Expect), len(got), got[len(s.Expect)].String())
	}
	return "", ""
}

func C16() *vk.Check {
	return &vk.Check{
		ID:    "C16",
		Level: "exploration",
		Rule: "the generator builds an instruction list first (so the intended instructions are known independently of the assembler) and prints it as source with random spacing/tabs, trailing comments, blank lines and \\n or \\r\\n line ends; asm.Parse output is decoded by the harness decoder and compared instruction by instruction (batch lines expanded by the table of instructions.texi). " +
			"Tokens: symbols [a-zA-Z][a-zA-Z0-9_]* of length 1..255, special nodes, _catch, selectors {*, digits, leading zeros, letters, digit-then-letters, letters-then-digits, uppercase-initial}, numbers over all widths, both modes, batch groups of 1..6 DOWN/UP/NEXT/PREVIOUS lines at the end. Half the sources are 'clean' (only token classes no finding is recorded for), so that a new break is not masked by a known one. " +
			"Plus a concurrency leg: 2..8 clean sources are assembled at the same time through writers that yield before they copy; each must come out byte for byte as when assembled alone. Plus a command leg: dev/asm is built from the tree under test and run as a process with -f flags.csv on clean sources in which CATCH/CROAK flag numbers are written as CSV names and the CSV also defines flags spelled like the program's symbols, nodes and labels; its output must decode to the instructions written. distinct = hash of source text; non-trivial = at least 2 instructions or a batch group.",
		Assumptions:    []string{"comment-only lines and a missing final newline are outside the documented grammar and are not generated", "batch lines only at the end of the source (documented MUST)", "wildcard is not used as a MOUT/MNEXT/MPREV/batch selector"},
		MinEvaluations: 1000,
		Shards:         func(string) int { return 16 },
		Run:            runC16,
		Serial:         c16CLI,
	}
}

func runC16(c *vk.Ctx) {
	c16Concurrent(c)
	c16FailingWriter(c)
	n := c.N(20000, 1000000)
	for i := 0; i < n; i++ {
		if !c.Mine(i) {
			continue
		}
		key := fmt.Sprintf("src/%d", i)
		if !c.Want(key) {
			continue
		}
		r := c.RNG(key)
		s := genC16(r, i%2 == 1)
		c.Begin(key)
		sig, msg := checkC16(s)
		c.Eval(vk.Hash64(s.Text), len(s.Expect) >= 2)
		c.Count("sources", 1)
		c.Count("instructions_expected", int64(len(s.Expect)))
		for _, l := range s.Lines {
			c.SetAdd("mnemonics", l.Mnemonic)
		}
		if len(s.Exotic) == 0 {
			c.Count("clean_sources", 1)
		}
		for k := range s.Exotic {
			c.Count("sources_with_"+k, 1)
		}
		if i < 2 {
			c.Sample(map[string]interface{}{"key": key, "source": s.Text, "expected": codec.Strings(s.Expect)})
		}
		if sig != "" {
			c.Violate(sig, msg, key, map[string]interface{}{"source": s.Text, "expected": codec.Strings(s.Expect)})
		}
	}
}

// yieldWriter follows the io.Writer contract (it copies p before returning and does not retain it) but hands the
// processor to other goroutines first: an assembler that builds its output in shared storage shows up as a
// program that contains pieces of another one.
type yieldWriter struct{ b []byte }

func (w *yieldWriter) Write(p []byte) (int, error) {
	runtime.Gosched()
	w.b = append(w.b, p...)
	return len(p), nil
}

// c16Concurrent: several programs assembled at the same time must each come out as when assembled alone.
func c16Concurrent(c *vk.Ctx) {
	rounds := c.N(30, 600)
	for i := 0; i < rounds; i++ {
		if !c.Mine(i) {
			continue
		}
		key := fmt.Sprintf("concurrent/%d", i)
		if !c.Want(key) {
			continue
		}
		r := c.RNG(key)
		k := r.Range(2, 8)
		srcs := make([]*c16src, k)
		want := make([][]byte, k)
		for j := range srcs {
			srcs[j] = genC16(r, false)
			w := bytes.NewBuffer(nil)
			if _, err := asm.Parse(srcs[j].Text, w); err != nil {
				srcs[j] = nil
				continue
			}
			want[j] = append([]byte{}, w.Bytes()...)
		}
		c.Begin(key)
		got := make([][]byte, k)
		errs := make([]error, k)
		var wg sync.WaitGroup
		start := make(chan struct{})
		for j := range srcs {
			if srcs[j] == nil {
				continue
			}
			wg.Add(1)
			go func(j int) {
				defer wg.Done()
				<-start
				for rep := 0; rep < 4; rep++ {
					w := &yieldWriter{}
					_, errs[j] = asm.Parse(srcs[j].Text, w)
					got[j] = w.b
					if errs[j] != nil || !bytes.Equal(got[j], want[j]) {
						return
					}
				}
			}(j)
		}
		close(start)
		wg.Wait()
		c.Eval(vk.Hash64(key), true)
		c.Count("concurrent_rounds", 1)
		c.Count("programs_assembled_concurrently", int64(k))
		for j := range srcs {
			if srcs[j] == nil {
				continue
			}
			if errs[j] != nil || !bytes.Equal(got[j], want[j]) {
				gp, _, _ := codec.Decode(got[j])
				c.Violate("concurrent-parse-differs", fmt.Sprintf("%d programs assembled at the same time: program %d comes out as %v (err %v), alone as %v", k, j, trunc([]byte(strings.Join(codec.Strings(gp), "; ")), 200), errs[j], trunc([]byte(strings.Join(codec.Strings(srcs[j].Expect), "; ")), 200)), key,
					map[string]interface{}{"source": srcs[j].Text})
				break
			}
		}
	}
}

// keepWriter accepts n bytes and then fails (a full device, a closed pipe); what it accepted is kept.
type keepWriter struct {
	n int
	b []byte
}

func (w *keepWriter) Write(p []byte) (int, error) {
	if len(p) > w.n {
		k := w.n
		w.b = append(w.b, p[:k]...)
		w.n = 0
		return k, fmt.Errorf("write: no space left on device")
	}
	w.n -= len(p)
	w.b = append(w.b, p...)
	return len(p), nil
}

// c16FailingWriter: the output refuses to take everything. Whenever asm.Parse reports success, what the writer
// accepted must be the complete program (what the same source assembles to into a buffer); a write that failed must
// come back as an error, wherever in the source the refused bytes come from (plain lines, the batch menu at the end).
func c16FailingWriter(c *vk.Ctx) {
	n := c.N(600, 20000)
	for i := 0; i < n; i++ {
		if !c.Mine(i) {
			continue
		}
		key := fmt.Sprintf("fullwriter/%d", i)
		if !c.Want(key) {
			continue
		}
		r := c.RNG(key)
		s := genC16(r, false)
		full := bytes.NewBuffer(nil)
		if _, err := asm.Parse(s.Text, full); err != nil || full.Len() == 0 {
			continue
		}
		c.Begin(key)
		caps := []int{0, 1, full.Len() - 1, full.Len() - 2, full.Len() / 2}
		for k := 0; k < 6; k++ {
			caps = append(caps, r.Intn(full.Len()))
		}
		for _, cp := range caps {
			if cp < 0 || cp >= full.Len() {
				continue
			}
			w := &keepWriter{n: cp}
			var err error
			pv, stack := vk.Guard(func() { _, err = asm.Parse(s.Text, w) })
			c.EvalN(1, 1)
			c.Count("assemblies_into_a_writer_that_fills_up", 1)
			csd := map[string]interface{}{"source": s.Text, "writer_capacity": cp, "program_bytes": full.Len()}
			if pv != nil {
				c.Violate("fullwriter:"+vk.PanicSig(pv, stack), fmt.Sprintf("asm.Parse panics when the writer fails after %d bytes: %v", cp, pv), key, csd)
				break
			}
			if err == nil {
				c.Violate("fullwriter:success-with-incomplete-output", fmt.Sprintf("asm.Parse returns nil although the writer accepted only %d of the program's %d bytes", len(w.b), full.Len()), key, csd)
				break
			}
		}
	}
}
