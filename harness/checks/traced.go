package checks

import (
	"bufio"
	"bytes"
	"fmt"
	"os"
	"os/exec"
	"path/filepath"
	"strings"

	"verif/harness/vk"
)

// tracedBuildLeg re-runs a share of a check's cases in a second binary built from the same tree with the library's
// logging compiled in (-tags logtrace, the writer discarded): every log call then formats its arguments, so
// String() methods and getters that the default build never executes run between the instructions of the real
// code. An observer must not change what it observes: whatever the traced binary reports is a violation here.
func tracedBuildLeg(id, only string) func(c *vk.Ctx) {
	return func(c *vk.Ctx) {
		if os.Getenv("VERIF_TRACED_CHILD") != "" {
			return
		}
		modfile, dir := os.Getenv("VERIF_MODFILE"), os.Getenv("VERIF_DIR")
		if modfile == "" || dir == "" {
			c.Inconclusive("VERIF_MODFILE / VERIF_DIR not set: the traced build cannot be made")
			return
		}
		tmp, err := os.MkdirTemp("", "traced-")
		if err != nil {
			c.Inconclusive(err.Error())
			return
		}
		defer os.RemoveAll(tmp)
		bin := filepath.Join(tmp, "vcheck-logtrace")
		build := exec.Command("go", "build", "-modfile="+modfile, "-tags", "verif logtrace", "-o", bin, "./cmd/vcheck")
		build.Dir = filepath.Join(dir, "harness")
		if out, err := build.CombinedOutput(); err != nil {
			c.Inconclusive("the harness does not build with -tags logtrace: " + trunc2(string(out), 300))
			return
		}
		tier := "thorough"
		if c.Quick() {
			tier = "quick"
		}
		run := exec.Command(bin, id, "--tier", tier, "--only", only)
		run.Dir = dir
		run.Env = append(os.Environ(), "VERIF_TRACED_CHILD=1", "VERIF_OUT="+filepath.Join(tmp, "out"))
		var stdout bytes.Buffer
		run.Stdout = &stdout
		rerr := run.Run()
		sc := bufio.NewScanner(&stdout)
		sc.Buffer(make([]byte, 1<<20), 1<<20)
		var lines []string
		for sc.Scan() {
			lines = append(lines, sc.Text())
		}
		summary := ""
		for i, l := range lines {
			switch {
			case strings.HasPrefix(l, "VIOLATION property="+id) && i+2 < len(lines):
				sig := strings.TrimPrefix(strings.TrimSpace(lines[i+1]), "sig=")
				c.Violate("logtrace-build:"+sig, "in a binary built with -tags logtrace (log output discarded): "+strings.TrimSpace(lines[i+2]), "traced/"+only,
					map[string]interface{}{"build_tags": "verif logtrace", "cases": only, "note": "replay needs the traced build: go build -tags 'verif logtrace' ./cmd/vcheck, then --only <key>"})
			case strings.HasPrefix(l, "INCONCLUSIVE"):
				c.Inconclusive("traced build: " + l)
			case strings.HasPrefix(l, id+" tier="):
				summary = l
			}
		}
		if summary == "" {
			c.Inconclusive(fmt.Sprintf("traced build: no summary line (exit %v)", rerr))
			return
		}
		var ev int64
		for _, f := range strings.Fields(summary) {
			if strings.HasPrefix(f, "evaluations=") {
				fmt.Sscan(strings.TrimPrefix(f, "evaluations="), &ev)
			}
		}
		c.EvalN(ev, ev)
		c.Count("cases_repeated_in_a_binary_with_logging_compiled_in", ev)
	}
}
