package checks

import (
	"bytes"
	"encoding/hex"
	"fmt"
	"os"
	"os/exec"
	"path/filepath"

	"git.defalsify.org/vise.git/vm"

	"verif/harness/codec"
	"verif/harness/vk"
)

// c15CLI: the disassembler command (dev/disasm), built from the tree under test and run as a process: its verdict
// (exit status) and its output must be those of ParseHandler.ToString on the bytes of the file - for valid programs,
// for damaged ones, for files that happen to look like text (ASCII hex digits, a trailing newline), and for symbols
// that contain '%'.
func c15CLI(c *vk.Ctx) {
	repo := repoDir()
	tmp, err := os.MkdirTemp("", "c15cli-")
	if err != nil {
		c.Inconclusive(err.Error())
		return
	}
	defer os.RemoveAll(tmp)
	bin := filepath.Join(tmp, "disasm")
	cmd := exec.Command("go", "build", "-o", bin, "./dev/disasm")
	cmd.Dir = repo
	if out, err := cmd.CombinedOutput(); err != nil {
		c.Inconclusive("dev/disasm does not build: " + trunc2(string(out), 300))
		return
	}
	r := c.RNG("cli")
	var inputs [][]byte
	for i := 0; i < c.N(40, 600); i++ {
		b := codec.EncodeAll(genSmallProgram(r))
		inputs = append(inputs, b)
		if len(b) > 3 {
			inputs = append(inputs, b[:r.Range(1, len(b)-1)])
			m := append([]byte{}, b...)
			m[r.Intn(len(m))] = byte(r.Intn(256))
			inputs = append(inputs, m)
		}
		// the bytes of a hex dump of the program: ASCII digits and letters, every "opcode" undefined
		inputs = append(inputs, []byte(hex.EncodeToString(b)), []byte(hex.EncodeToString(b)+"\n"))
	}
	inputs = append(inputs, []byte("0007"), []byte("0007\n"), []byte("00070007"), []byte("000a03666f6f0130"),
		codec.EncodeAll([]codec.Ins{{Op: codec.MOUT, S1: "x%dy", S2: "%s"}, {Op: codec.INCMP, S1: "n%v", S2: "100%"}, {Op: codec.HALT}}))
	fp := filepath.Join(tmp, "in.bin")
	for i, b := range inputs {
		os.WriteFile(fp, b, 0600)
		var stdout, stderr bytes.Buffer
		run := exec.Command(bin, fp)
		run.Stdout, run.Stderr = &stdout, &stderr
		rerr := run.Run()
		_, class, _ := codec.Decode(b)
		var want string
		var werr error
		if pv, _ := vk.Guard(func() { want, werr = vm.NewParseHandler().WithDefaultHandlers().ToString(b) }); pv != nil {
			werr = fmt.Errorf("panic: %v", pv) // reported by the in-process legs; the command is still judged on its exit status
		}
		c.EvalN(1, 1)
		c.Count("cli_runs", 1)
		c.Count("cli_class_"+class, 1)
		key := fmt.Sprintf("cli/%d", i)
		csd := map[string]interface{}{"bytes_hex": fmt.Sprintf("%x", trunc(b, 300)), "class": class, "stdout": trunc2(stdout.String(), 300), "stderr": trunc2(stderr.String(), 300)}
		switch {
		case malformed(class) && rerr == nil:
			c.Violate("cli:silent-accept:"+class, fmt.Sprintf("dev/disasm exits 0 on a file whose bytes are %s bytecode (it prints %q)", class, trunc2(stdout.String(), 200)), key, csd)
		case class == codec.Valid && werr == nil && (rerr != nil || stdout.String() != want):
			c.Violate("cli:listing-differs", fmt.Sprintf("dev/disasm prints %q (exit %v), the disassembler lists %q", trunc2(stdout.String(), 300), rerr, trunc2(want, 300)), key, csd)
		}
	}
}
