package checks

import (
	"context"
	"encoding/base64"
	"fmt"
	"os"
	"path"
	"reflect"
	"strings"

	"git.defalsify.org/vise.git/cache"
	"git.defalsify.org/vise.git/db"
	fsdb "git.defalsify.org/vise.git/db/fs"
	"git.defalsify.org/vise.git/persist"
	"git.defalsify.org/vise.git/state"

	"verif/harness/app"
	"verif/harness/vk"
)

// ---------------------------------------------------------------------------------------------
// C11 — sessions and data types never see each other's data (bit-indexed rounds over address pairs)

var c11SidsQuick = []string{"", "a", "b", "a.b", "a.", ".a", "a/b", "x/../@y", "x/../Py", "..", "P", "Ps", "@", "@a", "a_nor", "\x00", "\x10", " ", "y", "8", "1a", "a.b.c", "s", "é"}
var c11KeysQuick = []string{"c", "b.c", ".c", "a.b.c", "k", "bin", "x.bin", "Pabc", "@k", "../x", "foo_nor", "foo", "a", "b", "c.", "Ps.k", "y.c", "key", "s.k", "\x00", " ", "k_eng", "abc", "txt"}

func c11Extra(r *vk.RNG, n int) []string {
	var l []string
	for i := 0; i < n; i++ {
		b := make([]byte, r.Range(1, 6))
		for j := range b {
			b[j] = vk.Pick(r, []byte{'a', 'b', '.', '_', 'P', '@', '1', 0x00, 0xff, ' ', 'x', '-', '+'})
		}
		s := string(b)
		if strings.Contains(s, "/") {
			continue
		}
		l = append(l, s)
	}
	return l
}

var c11Types = []uint8{db.DATATYPE_STATE, db.DATATYPE_USERDATA, db.DATATYPE_BIN, db.DATATYPE_TEMPLATE, db.DATATYPE_MENU, db.DATATYPE_STATICLOAD}

type c11addr struct {
	Typ uint8
	Sid string
	Key string
}

func (a c11addr) String() string {
	if a.Typ > db.DATATYPE_STATICLOAD {
		return fmt.Sprintf("(type %d, session %q, key %q)", a.Typ, a.Sid, a.Key)
	}
	return fmt.Sprintf("(type %d, key %q)", a.Typ, a.Key)
}

func buildAddrs(sids, keys []string) []c11addr {
	var l []c11addr
	for _, t := range c11Types {
		if t > db.DATATYPE_STATICLOAD {
			for _, s := range sids {
				for _, k := range keys {
					l = append(l, c11addr{t, s, k})
				}
			}
		} else {
			for _, k := range keys {
				l = append(l, c11addr{t, "", k})
			}
		}
	}
	return l
}

func sidPrefix(s string) string {
	if s == "" {
		return ""
	}
	return s + "."
}

// mechanism explains from the two addresses alone why a backend may confuse them.
func c11Mechanism(backend string, a, b c11addr) string {
	if a.Typ == b.Typ && a.Typ > db.DATATYPE_STATICLOAD && sidPrefix(a.Sid)+a.Key == sidPrefix(b.Sid)+b.Key {
		return "separator-ambiguity(sid.key)"
	}
	if backend == "fs" || backend == "fsbin" {
		name := func(x c11addr) string {
			k := x.Key
			if backend == "fsbin" {
				k = base64.StdEncoding.EncodeToString([]byte(k))
			}
			n := string([]byte{x.Typ + 0x30})
			if x.Typ > db.DATATYPE_STATICLOAD {
				n += sidPrefix(x.Sid)
			}
			return n + k
		}
		alt := func(x c11addr) string {
			n := name(x)[1:]
			if x.Typ == db.DATATYPE_BIN {
				n += ".bin"
			}
			return n
		}
		na, nb := name(a), name(b)
		if na != nb && path.Join("/d", na) == path.Join("/d", nb) {
			return "fs-path-normalisation"
		}
		for _, p := range [][2]c11addr{{a, b}, {b, a}} {
			if p[0].Typ <= db.DATATYPE_STATICLOAD && path.Join("/d", alt(p[0])) == path.Join("/d", name(p[1])) {
				return "legacy-unprefixed-file-name-fallback(resource-types)"
			}
		}
	}
	return "unexplained"
}

func c11Open(backend string) (*app.Backend, db.Db, error) {
	b, err := app.NewBackend(backend)
	if err != nil {
		return nil, nil, err
	}
	s, err := b.Handle()
	if err != nil {
		b.Cleanup()
		return nil, nil, err
	}
	for _, t := range c11Types[2:] {
		s.SetLock(t, false)
	}
	return b, s, nil
}

func c11Select(s db.Db, a c11addr) {
	s.SetPrefix(a.Typ)
	s.SetSession(a.Sid)
}

// probe runs an isolated two-address experiment on a fresh store: write a, read b; write b, read a.
// Returns the symptom ("" if the addresses are isolated).
func c11Probe(backend string, a, b c11addr) string {
	ctx := context.Background()
	bk, s, err := c11Open(backend)
	if err != nil {
		return ""
	}
	defer bk.Cleanup()
	va, vb := []byte("value-of-a"), []byte("value-of-b")
	c11Select(s, a)
	if err := s.Put(ctx, []byte(a.Key), va); err != nil {
		return ""
	}
	c11Select(s, b)
	if got, err := s.Get(ctx, []byte(b.Key)); err == nil && string(got) == string(va) {
		return "read-through"
	}
	if err := s.Put(ctx, []byte(b.Key), vb); err != nil {
		return ""
	}
	c11Select(s, a)
	if got, err := s.Get(ctx, []byte(a.Key)); err == nil && string(got) == string(vb) {
		return "overwritten"
	}
	return ""
}

func C11() *vk.Check {
	return &vk.Check{ID: "C11", Level: "exploration", MinEvaluations: 1000, Shards: func(string) int { return 8 }, Run: runC11,
		Rule: "exhaustive over ordered pairs of different addresses (type, session-if-sessioned, key) drawn from an adversarial alphabet (separators, type-prefix characters, language-like suffixes, empty session, path fragments, binary bytes): quick 24 session ids x 24 keys, thorough 60 x 60 plus PRNG binary ids/keys; types STATE, USERDATA and unlocked BIN/TEMPLATE/MENU/STATICLOAD; backends mem, fs, fs binary-key, Postgres fake. All n(n-1) ordered pairs are covered by bit-indexed rounds: round (j,b) writes a unique value to every address whose index has bit j == b on a fresh store and then reads all addresses; a written address must return its own value, an unwritten one must not return any value; on fs and the Postgres fake every session context's listing must only contain that session's records. Every hit is re-run as an isolated two-address probe on a fresh store and its mechanism computed from the two addresses. " +
			"Plus a persister leg: one persist.Persister saves the snapshots of 2/3/8 sessions one after another on each backend (records of equal and of different size); each session loaded through a fresh handle must get back its own state and cache. distinct = ordered (written, unwritten) pairs covered, by construction; non-trivial = every pair of different addresses.",
		Assumptions: []string{"an address whose Put fails is 'not accepted by the backend' and only has to stay unreadable", "values are unique per address and round, so a value identifies the write it came from"}}
}

func runC11(c *vk.Ctx) {
	c11PersisterReuse(c)
	c11PersisterLoads(c)
	c11SharedPersisterRefused(c)
	c11LongIds(c)
	c11ContextBeforeConnect(c)
	ctx := context.Background()
	sids, keys := c11SidsQuick, c11KeysQuick
	if !c.Quick() {
		r := c.RNG("alphabet")
		sids = append(append([]string{}, sids...), c11Extra(r, 36)...)
		keys = append(append([]string{}, keys...), c11Extra(r, 36)...)
	}
	addrs := buildAddrs(sids, keys)
	n := len(addrs)
	bits := 0
	for (1 << uint(bits)) < n {
		bits++
	}
	backends := []string{"mem", "fs", "fsbin", "pg"}
	idx := 0
	reported := map[string]bool{}
	for _, backend := range backends {
		for j := 0; j < bits; j++ {
			for b := 0; b < 2; b++ {
				mine := c.Mine(idx)
				idx++
				key := fmt.Sprintf("round/%s/%d/%d", backend, j, b)
				if !mine || !c.Want(key) {
					continue
				}
				c.Begin(key)
				bk, s, err := c11Open(backend)
				if err != nil {
					c.Inconclusive(err.Error())
					continue
				}
				valueOwner := map[string]int{}
				written := make([]bool, n)
				nw := 0
				for i, a := range addrs {
					if (i>>uint(j))&1 != b {
						continue
					}
					c11Select(s, a)
					v := fmt.Sprintf("val-%d-%d-%d", j, b, i)
					var perr error
					pv, _ := vk.Guard(func() { perr = s.Put(ctx, []byte(a.Key), []byte(v)) })
					c.Count("store_operations", 1)
					if pv != nil || perr != nil {
						c.Count("addresses_not_accepted_by_backend", 1)
						continue
					}
					written[i] = true
					valueOwner[v] = i
					nw++
				}
				hits := 0
				handle := "the writing handle"
				check := func(a c11addr, got []byte, how string) {
					owner, ok := valueOwner[string(got)]
					if !ok || addrs[owner] == a {
						return
					}
					hits++
					o := addrs[owner]
					mech := c11Mechanism(backend, a, o)
					symptom := how
					confirmed := c11Probe(backend, o, a)
					if confirmed == "" {
						confirmed = c11Probe(backend, a, o)
					}
					if confirmed == "" && how != "list" {
						c.Count("hits_not_confirmed_by_isolated_probe", 1)
					}
					sig := backend + ":" + mech + ":" + symptom
					if reported[sig] {
						c.Count("violations_observed", 1)
						return
					}
					reported[sig] = true
					c.Violate(sig, fmt.Sprintf("%s: %s %s the record written under %s (through %s; isolated probe: %q)", backend, a, how+"s", o, handle, confirmed), key,
						map[string]interface{}{"backend": backend, "read_through": handle, "address_read": a.String(), "address_written": o.String(), "mechanism": mech})
				}
				// every address is read twice: through the handle as it wrote, and again after every data type has been
				// locked on it (a read-only view: what db/dbtest does after each write and a deployment does before it
				// hands a store to a reader); what a session can see must not depend on the locks
				for pass := 0; pass < 2; pass++ {
					if pass == 1 {
						for _, t := range c11Types {
							s.SetLock(t, true)
						}
						c.Count("read_passes_through_a_locked_handle", 1)
						handle = "the same handle with every data type locked"
					}
					for i, a := range addrs {
						c11Select(s, a)
						var got []byte
						var gerr error
						pv, stack := vk.Guard(func() { got, gerr = s.Get(ctx, []byte(a.Key)) })
						c.Count("store_operations", 1)
						if pv != nil {
							c.Violate(backend+":"+vk.PanicSig(pv, stack), fmt.Sprintf("Get %s panics: %v", a, pv), key, nil)
							continue
						}
						if gerr != nil {
							if written[i] {
								c.Count("written_address_unreadable(not this property)", 1)
							}
							continue
						}
						how := "read"
						if written[i] {
							how = "returns-value-overwritten-by"
						}
						check(a, got, how)
					}
				}
				// listings (fs, Postgres): per sessioned context, nothing of another address's session/type
				if backend == "fs" || backend == "fsbin" || backend == "pg" {
					for _, t := range c11Types[:2] {
						for _, sid := range sids {
							s.SetPrefix(t)
							s.SetSession(sid)
							pv, _ := vk.Guard(func() {
								d, err := s.Dump(ctx, []byte(""))
								if err != nil {
									return
								}
								for k := 0; k < 100000; k++ {
									kk, vv := d.Next(ctx)
									if kk == nil {
										break
									}
									if owner, ok := valueOwner[string(vv)]; ok {
										o := addrs[owner]
										if o.Typ != t || o.Sid != sid {
											check(c11addr{t, sid, string(kk)}, vv, "list")
										}
									}
								}
								d.Close()
							})
							c.Count("listings", 1)
							if pv != nil {
								c.Count("listing_panics(C10)", 1)
							}
						}
					}
				}
				bk.Cleanup()
				if j == 0 && b == 0 && backend == "fs" {
					var w, u []string
					for i, a := range addrs {
						if written[i] && len(w) < 4 {
							w = append(w, a.String())
						}
						if !written[i] && (i>>uint(j))&1 != b && len(u) < 4 {
							u = append(u, a.String())
						}
					}
					c.Sample(map[string]interface{}{"round": key, "written_with_unique_values": nw, "then_read": n, "examples_written": w, "examples_read_but_never_written": u, "hits_in_this_round": hits})
				}
				// every (written, unwritten) ordered pair of this round was covered
				c.EvalN(int64(nw)*int64(n-nw), int64(nw)*int64(n-nw))
				c.Count("rounds", 1)
				c.Count("hits", int64(hits))
			}
		}
	}
	c.Count("max_addresses", int64(n))
	c.SetExhaustive(true)
}

// c11PersisterReuse: one Persister object saves the snapshots of several sessions one after another (Save takes
// the session as its key, so a long-lived persister is legal use); every session, loaded through a fresh handle
// and persister afterwards, must get back exactly its own state and cache.
func c11PersisterReuse(c *vk.Ctx) {
	if !c.Mine(1) || (c.Only != "" && c.Only != "persister-reuse") {
		return
	}
	c.Begin("persister-reuse")
	for _, backend := range []string{"mem", "fs", "fsbin", "pg"} {
		for _, n := range []int{2, 3, 8} {
			for _, sameSize := range []bool{true, false} {
				b, err := app.NewBackend(backend)
				if err != nil {
					continue
				}
				store, _ := b.Handle()
				pe := persist.NewPersister(store)
				type rec struct{ sid, node, val string }
				var recs []rec
				for i := 0; i < n; i++ {
					r := rec{sid: fmt.Sprintf("user%02d", i), node: fmt.Sprintf("node%02d", i), val: fmt.Sprintf("secret-of-user-%02d", i)}
					if !sameSize {
						r.val += strings.Repeat("x", (n-i)*7)
					}
					recs = append(recs, r)
					st := state.NewState(4)
					st.Down("root")
					st.Down(r.node)
					ca := cache.NewCache()
					ca.Push()
					ca.Push()
					ca.Add("pin", r.val, 200)
					pe = pe.WithContent(st, ca)
					if err := pe.Save(r.sid); err != nil {
						c.Violate(backend+":persister-reuse:save-fails", err.Error(), "persister-reuse", nil)
					}
				}
				for _, r := range recs {
					h2, _ := b.Handle()
					p2 := persist.NewPersister(h2).WithContent(state.NewState(4), cache.NewCache())
					c.EvalN(1, 1)
					c.Count("persister_reuse_loads", 1)
					if err := p2.Load(r.sid); err != nil {
						c.Violate(backend+":persister-reuse:record-destroyed-by-a-later-save", fmt.Sprintf("%s: %d sessions saved through one Persister (same size %v); Load(%s) fails: %v", backend, n, sameSize, r.sid, err), "persister-reuse", map[string]interface{}{"backend": backend, "sessions": n})
						continue
					}
					where, _ := p2.GetState().Where()
					got, _ := p2.GetMemory().Get("pin")
					if where != r.node || got != r.val {
						c.Violate(backend+":persister-reuse:session-reads-another-sessions-snapshot", fmt.Sprintf("%s: %d sessions saved through one Persister (same size %v); session %s loads node %q pin %q, saved node %q pin %q", backend, n, sameSize, r.sid, where, got, r.node, r.val), "persister-reuse", map[string]interface{}{"backend": backend, "sessions": n})
					}
				}
				b.Cleanup()
			}
		}
	}
}

// c11PersisterLoads: one persist.Persister object that serves several sessions in turn (a worker-wide persister;
// Persister.WithFlush exists for this) must hand every session exactly its own stored snapshot: Load over the
// content of the session handled before equals Load through a new persister, and after a flushing Save nothing of
// the saved session is left for a session that does not exist yet.
func c11PersisterLoads(c *vk.Ctx) {
	n := c.N(120, 4000)
	for i := 0; i < n; i++ {
		if !c.Mine(i) {
			continue
		}
		key := fmt.Sprintf("persister-loads/%d", i)
		if !c.Want(key) {
			continue
		}
		r := c.RNG(key)
		backend := []string{"mem", "fs", "fsbin", "pg"}[i%4]
		b, err := app.NewBackend(backend)
		if err != nil {
			continue
		}
		c.Begin(key)
		func() {
			defer b.Cleanup()
			flags := uint32(r.Range(0, 20))
			capacity := uint32(0)
			if r.Chance(1, 2) {
				capacity = uint32(r.Range(200, 2000))
			}
			k := r.Range(2, 5)
			type sess struct {
				sid string
				st  *app.StateSnap
				ca  *app.CacheSnap
			}
			var all []sess
			// every session is written through a persister of its own
			for j := 0; j < k; j++ {
				sid := fmt.Sprintf("user%02d", j)
				fl := flags
				if r.Chance(1, 3) {
					fl = uint32(r.Range(0, int(flags))) // a record from before the application added flags
				}
				st := state.NewState(fl)
				ca := cache.NewCache()
				capJ := capacity
				if r.Chance(1, 3) {
					capJ = uint32(r.Range(0, 3)) * 700 // sessions created under other capacity settings (0 = unlimited)
				}
				if capJ > 0 {
					ca = ca.WithCacheSize(capJ)
				}
				depth := r.Range(0, 5)
				st.Down("root")
				for d := 0; d < depth; d++ {
					st.Down(fmt.Sprintf("n%d_%d", j, d))
					ca.Push()
					for x := 0; x < r.Range(0, 3); x++ {
						ca.Add(fmt.Sprintf("sym%d_%d_%d", j, d, x), fmt.Sprintf("secret-%s-%d-%d", sid, d, x), uint16(r.Range(0, 60)))
					}
				}
				// symbols every session has (same key, own value)
				if r.Chance(2, 3) {
					ca.Add("pin", "pin-of-"+sid, 40)
				}
				for p := 0; p < r.Range(0, 3); p++ {
					st.Next()
				}
				for f := uint32(8); f < 8+fl; f++ {
					if r.Chance(1, 2) {
						st.SetFlag(f)
					}
				}
				if r.Chance(1, 3) {
					st.SetLanguage(vk.Pick(r, []string{"nor", "fra", "swa"}))
				}
				if r.Chance(1, 2) {
					st.SetCode([]byte{0, 7, 0, byte(j)})
				}
				h, _ := b.Handle()
				if err := persist.NewPersister(h).WithContent(st, ca).Save(sid); err != nil {
					c.Inconclusive("cannot prepare session: " + err.Error())
					return
				}
				all = append(all, sess{sid, app.SnapState(st), app.SnapCache(ca)})
			}
			flush := r.Chance(1, 2)
			hs, _ := b.Handle()
			shared := persist.NewPersister(hs).WithContent(state.NewState(flags), cache.NewCache())
			if flush {
				shared = shared.WithFlush()
			}
			mode := map[bool]string{true: "flush", false: "plain"}[flush]
			for step := 0; step < 3*k; step++ {
				s := all[r.Intn(len(all))]
				c.EvalN(1, 1)
				c.Count("shared_persister_loads:"+mode, 1)
				csd := map[string]interface{}{"backend": backend, "mode": mode, "sessions": k, "step": step, "session": s.sid}
				if err := shared.Load(s.sid); err != nil {
					c.Violate(backend+":shared-persister:"+mode+":load-fails", fmt.Sprintf("%s: Load(%s) through the shared persister fails: %v", backend, s.sid, err), key, csd)
					return
				}
				gs, gc := app.SnapState(shared.GetState()), app.SnapCache(shared.Memory)
				if !gs.Equal(s.st) {
					c.Violate(backend+":shared-persister:"+mode+":state-of-another-session", fmt.Sprintf("%s: a persister that handled other sessions before loads %s as %+v, stored %+v", backend, s.sid, gs, s.st), key, csd)
					return
				}
				if !gc.Equal(s.ca) || !reflect.DeepEqual(gc.Sizes, s.ca.Sizes) {
					c.Violate(backend+":shared-persister:"+mode+":cache-of-another-session", fmt.Sprintf("%s: a persister that handled other sessions before loads the cache of %s as %+v, stored %+v", backend, s.sid, gc, s.ca), key, csd)
					return
				}
				if r.Chance(1, 2) {
					if err := shared.Save(s.sid); err != nil {
						c.Violate(backend+":shared-persister:"+mode+":save-fails", err.Error(), key, csd)
						return
					}
					if flush {
						// what a session that does not exist yet would start from
						fs, fc := app.SnapState(shared.GetState()), app.SnapCache(shared.Memory)
						// an empty state of the flag size of the session just saved (State.CloneEmpty)
						es := app.SnapState(state.NewState(s.st.BitSize - 8))
						ecache := cache.NewCache()
						if s.ca.Size > 0 {
							ecache = ecache.WithCacheSize(s.ca.Size) // the flushed cache keeps the capacity of the session just saved
						}
						ec := app.SnapCache(ecache)
						c.Count("flushing_saves", 1)
						if !fs.Equal(es) {
							c.Violate(backend+":shared-persister:flush-leaves-state", fmt.Sprintf("%s: after a flushing Save of %s the persister's state is %+v, a new state is %+v", backend, s.sid, fs, es), key, csd)
							return
						}
						if !fc.Equal(ec) || len(fc.Sizes) != 0 {
							c.Violate(backend+":shared-persister:flush-leaves-cache", fmt.Sprintf("%s: after a flushing Save of %s the persister's cache still holds %+v (a new cache: %+v)", backend, s.sid, fc, ec), key, csd)
							return
						}
					}
				}
			}
		}()
	}
}

// c11SharedPersisterRefused: a worker-wide flushing persister serves session A, then a request of A that the engine
// refuses before it is initialized (input longer than 255 bytes: nothing is saved, so nothing is flushed), then
// the first request of a session B that does not exist yet. B must start like any new session.
func c11SharedPersisterRefused(c *vk.Ctx) {
	n := c.N(60, 1500)
	for i := 0; i < n; i++ {
		if !c.Mine(i) {
			continue
		}
		key := fmt.Sprintf("persister-refused/%d", i)
		if !c.Want(key) {
			continue
		}
		r := c.RNG(key)
		p := app.DefaultProfile()
		p.Sinks = false
		a := app.Generate(r, p)
		backend := []string{"mem", "fs", "pg"}[i%3]
		cfgA := app.Config{FlagCount: a.FlagCount, SessionId: "alice", Root: a.Root}
		cfgB := cfgA
		cfgB.SessionId = "bob"
		hist := a.History(r, r.Range(2, 8))
		refused := strings.Repeat("9", r.Range(256, 400))
		switch r.Intn(6) {
		case 0, 1:
			refused = "\n" // bad format: refused after initialization
		case 2:
			refused = "1" + strings.Repeat("é", 128) // 257 bytes, 129 characters
		case 3:
			refused = strings.Repeat("€", 86) // 258 bytes, 86 characters
		case 4:
			refused = strings.Repeat("1", 200) + strings.Repeat("𝄞", 14) // 256 bytes, 214 characters
		}
		c.Begin(key)
		// reference: bob alone
		b0, err := app.NewBackend(backend)
		if err != nil {
			continue
		}
		pr0 := app.NewPerRequest(a, cfgB, b0)
		want := pr0.Request([]byte(""))
		b0.Cleanup()
		b, _ := app.NewBackend(backend)
		sp := &app.SharedPersister{Mode: "flush"}
		prA := app.NewPerRequest(a, cfgA, b)
		prB := app.NewPerRequest(a, cfgB, b)
		prA.Shared, prB.Shared = sp, sp
		ok := true
		for _, in := range hist {
			o := prA.Request([]byte(in))
			if !o.Cont || o.ExecErr != "" || o.FlushErr != "" || o.Panic != "" {
				ok = false
				break
			}
		}
		if ok {
			prA.Request([]byte(refused))
			got := prB.Request([]byte(""))
			c.EvalN(1, 1)
			c.Count("new_session_after_refused_request_of_another", 1)
			if got.Out != want.Out || got.Cont != want.Cont || (got.ExecErr == "") != (want.ExecErr == "") || !got.StoredState.Equal(want.StoredState) || !got.StoredCache.Equal(want.StoredCache) {
				c.Violate(backend+":shared-persister:flush:new-session-starts-from-another-sessions-state", fmt.Sprintf("%s: flushing persister shared by all requests; alice: %v, then a refused input of %d bytes; bob's first request answers %s and stores %+v / %+v; alone: %s, %+v / %+v", backend, printableHist(hist), len(refused), got.Brief(), got.StoredState, got.StoredCache, want.Brief(), want.StoredState, want.StoredCache), key,
					map[string]interface{}{"backend": backend, "app": a.Describe(), "history_alice": hist, "refused_len": len(refused)})
			}
		}
		sp.Close()
		b.Cleanup()
	}
}

// c11LongIds: session ids beyond the file-name limit. A store that refuses them (the pinned tree does) has nothing to
// isolate; one that accepts them has to fold them into file names, and a fold is only injective if it says so: a quarter
// of a million ids that share their first 250 bytes (enough for birthday collisions of any 32-bit fold) are written with
// unique values and read back.
func c11LongIds(c *vk.Ctx) {
	if !c.Mine(2) || !c.Want("long-ids") {
		return
	}
	c.Begin("long-ids")
	ctx := context.Background()
	for _, backend := range []string{"fs", "fsbin"} {
		b, err := app.NewBackend(backend)
		if err != nil {
			continue
		}
		func() {
			defer b.Cleanup()
			store, _ := b.Handle()
			prefix := strings.Repeat("L", 250)
			store.SetPrefix(db.DATATYPE_USERDATA)
			store.SetSession(prefix + "00000000")
			if err := store.Put(ctx, []byte("k"), []byte("probe")); err != nil {
				c.Count("long_session_ids_refused:"+backend, 1)
				c.EvalN(1, 1)
				return
			}
			r := c.RNG("long-ids/" + backend)
			n := 1 << 18
			ids := make([]uint32, n)
			seen := map[uint32]bool{}
			for i := range ids {
				x := r.U32()
				for seen[x] {
					x = r.U32()
				}
				seen[x] = true
				ids[i] = x
			}
			accepted := 0
			for _, x := range ids {
				store.SetSession(fmt.Sprintf("%s%08x", prefix, x))
				if store.Put(ctx, []byte("k"), []byte(fmt.Sprintf("value-of-%08x", x))) == nil {
					accepted++
				}
			}
			c.Count("long_session_ids_accepted:"+backend, int64(accepted))
			for _, x := range ids {
				store.SetSession(fmt.Sprintf("%s%08x", prefix, x))
				got, err := store.Get(ctx, []byte("k"))
				c.EvalN(1, 1)
				if err == nil && string(got) != fmt.Sprintf("value-of-%08x", x) {
					c.Violate(backend+":long-session-ids-share-a-record", fmt.Sprintf("%s: %d session ids of 258 bytes with a common prefix of 250 are accepted; session ...%08x reads %q, the value written by another session", backend, accepted, x, got), "long-ids",
						map[string]interface{}{"backend": backend, "id_suffix": fmt.Sprintf("%08x", x), "read": string(got)})
					return
				}
			}
		}()
	}
}

// c11ContextBeforeConnect: the session (and data type) are selected on the handle before it is connected - the
// order persist.NewPersister(store).WithSession(id) followed by Connect gives. Handles prepared that way over one
// directory must be as isolated from each other as handles that select the session after connecting.
func c11ContextBeforeConnect(c *vk.Ctx) {
	if !c.Mine(5) || !c.Want("context-before-connect") {
		return
	}
	c.Begin("context-before-connect")
	ctx := context.Background()
	sids := []string{"alice", "bob", "a", "b", "Ps", "@a", "1a", "carol-0001", "carol-0002"}
	for _, binary := range []bool{false, true} {
		dir, err := os.MkdirTemp("", "c11pre-")
		if err != nil {
			c.Inconclusive(err.Error())
			return
		}
		open := func(sid string, typ uint8, viaPersister bool) (db.Db, error) {
			s := fsdb.NewFsDb()
			if binary {
				s = s.WithBinary()
			}
			s.SetPrefix(typ)
			if viaPersister {
				persist.NewPersister(s).WithSession(sid)
			} else {
				s.SetSession(sid)
			}
			return s, s.Connect(ctx, dir)
		}
		backend := map[bool]string{false: "fs", true: "fsbin"}[binary]
		owner := map[string]string{}
		for i, sid := range sids {
			for _, typ := range []uint8{db.DATATYPE_USERDATA, db.DATATYPE_STATE} {
				s, err := open(sid, typ, i%2 == 1)
				if err != nil {
					c.Inconclusive(err.Error())
					continue
				}
				// nobody has written "k" under this session and type yet
				got, gerr := s.Get(ctx, []byte("k"))
				c.EvalN(1, 1)
				c.Count("handles_prepared_before_connect", 1)
				if gerr == nil {
					c.Violate(backend+":context-selected-before-connect:read", fmt.Sprintf("%s: a handle on which (type %d, session %q) was selected before Connect reads %q, which %s wrote; this session never wrote the key", backend, typ, sid, got, owner[string(got)]),
						"context-before-connect", map[string]interface{}{"backend": backend, "session": sid, "type": typ})
					os.RemoveAll(dir)
					return
				}
				v := fmt.Sprintf("value-of-%s-%d", sid, typ)
				owner[v] = fmt.Sprintf("(type %d, session %q)", typ, sid)
				if err := s.Put(ctx, []byte("k"), []byte(v)); err != nil {
					c.Count("addresses_not_accepted_by_backend", 1)
				}
				s.Close(ctx)
			}
		}
		// everybody reads back through handles prepared the same way, and through handles prepared the usual way
		for i, sid := range sids {
			for _, typ := range []uint8{db.DATATYPE_USERDATA, db.DATATYPE_STATE} {
				want := fmt.Sprintf("value-of-%s-%d", sid, typ)
				s, _ := open(sid, typ, i%2 == 0)
				got, gerr := s.Get(ctx, []byte("k"))
				s.Close(ctx)
				u := fsdb.NewFsDb()
				if binary {
					u = u.WithBinary()
				}
				u.Connect(ctx, dir)
				u.SetPrefix(typ)
				u.SetSession(sid)
				got2, gerr2 := u.Get(ctx, []byte("k"))
				u.Close(ctx)
				c.EvalN(2, 2)
				if gerr != nil || string(got) != want || gerr2 != nil || string(got2) != want {
					c.Violate(backend+":context-selected-before-connect:returns-value-overwritten-by", fmt.Sprintf("%s: (type %d, session %q) wrote %q through a handle prepared before Connect; read back through such a handle: %q (err %v), through a handle that selects the session after Connect: %q (err %v)", backend, typ, sid, want, got, gerr, got2, gerr2),
						"context-before-connect", map[string]interface{}{"backend": backend, "session": sid, "type": typ})
					os.RemoveAll(dir)
					return
				}
			}
		}
		os.RemoveAll(dir)
	}
}
