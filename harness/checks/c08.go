package checks

import (
	"context"
	"fmt"
	"git.defalsify.org/vise.git/state"
	"os"
	"sort"
	"strings"

	"git.defalsify.org/vise.git/db"

	"verif/harness/app"
	"verif/harness/vk"
)

// ---------------------------------------------------------------------------------------------
// C08 — no input history crashes the engine or corrupts the session

var c08Hostile = []string{"", "zz", "0", strings.Repeat("a", 255), strings.Repeat("b", 256), strings.Repeat("c", 300),
	"\x00", "\xff", "1\n2", "+", "*", "<", ">", "_", "^", ".", "+a", "00", "é1"}

// sessionInvariants checks the quiescent-point invariants on a snapshot pair.
func sessionInvariants(st *app.StateSnap, ca *app.CacheSnap) (string, string) {
	if st == nil || ca == nil {
		return "", ""
	}
	if need := (int(st.BitSize) + 7) / 8; st.BitSize < 8 || len(st.Flags) != need {
		return "flag-bytes!=flag-bits", fmt.Sprintf("%d flag bytes for a flag field of %d bits", len(st.Flags), st.BitSize)
	}
	if len(ca.Frames) != len(st.ExecPath)+1 {
		return "cache-levels!=stack+1", fmt.Sprintf("cache has %d scopes, navigation stack %v has %d levels", len(ca.Frames), st.ExecPath, len(st.ExecPath))
	}
	var sum uint64
	seen := map[string]int{}
	for fi, f := range ca.Frames {
		for k, v := range f {
			sum += uint64(len(v))
			if pf, dup := seen[k]; dup {
				return "symbol-in-two-scopes", fmt.Sprintf("symbol %s in scopes %d and %d", k, pf, fi)
			}
			seen[k] = fi
			lim, ok := ca.Sizes[k]
			if !ok {
				return "live-symbol-without-limit", fmt.Sprintf("symbol %s has no Sizes entry", k)
			}
			if lim > 0 && len(v) > int(lim) {
				return "over-limit-value-stored", fmt.Sprintf("symbol %s holds %d bytes, limit %d", k, len(v), lim)
			}
		}
	}
	if uint64(ca.Use) != sum {
		return "cache-use!=sum", fmt.Sprintf("CacheUseSize %d, sum of values %d", ca.Use, sum)
	}
	if ca.Size > 0 && sum > uint64(ca.Size) {
		return "cache-over-capacity", fmt.Sprintf("%d bytes cached, capacity %d", sum, ca.Size)
	}
	return "", ""
}

type c08node struct {
	snap  []byte // raw stored snapshot (nil: no record yet)
	calls map[string]int
	hist  []string
	ended bool
}

func stateHash(o *app.Obs, calls map[string]int) uint64 {
	var sb strings.Builder
	if o.StoredState != nil {
		s := o.StoredState
		fmt.Fprintf(&sb, "%v|%d|%x|%x|%s|", s.ExecPath, s.SizeIdx, s.Flags, s.Code, s.Lang)
	}
	if o.StoredCache != nil {
		for i, f := range o.StoredCache.Frames {
			ks := app.SortedKeys(f)
			for _, k := range ks {
				fmt.Fprintf(&sb, "%d:%s=%d:%x;", i, k, o.StoredCache.Sizes[k], vk.Hash64(f[k]))
			}
		}
		fmt.Fprintf(&sb, "|%x", vk.Hash64(o.StoredCache.Last))
	}
	ks := make([]string, 0, len(calls))
	for k := range calls {
		ks = append(ks, k)
	}
	sort.Strings(ks)
	for _, k := range ks {
		fmt.Fprintf(&sb, "|%s#%d", k, calls[k])
	}
	return vk.Hash64(sb.String())
}

func cloneCalls(m map[string]int) map[string]int {
	o := make(map[string]int, len(m))
	for k, v := range m {
		o[k] = v
	}
	return o
}

func printable(s string) string {
	if len(s) > 20 {
		return fmt.Sprintf("%q…(%d bytes)", s[:8], len(s))
	}
	return fmt.Sprintf("%q", s)
}

func printableHist(h []string) []string {
	o := make([]string, len(h))
	for i, s := range h {
		o[i] = printable(s)
	}
	return o
}

// c08Step runs one request from a stored snapshot and checks it. Returns the observation and whether a violation was raised.
func c08Step(c *vk.Ctx, a *app.App, cfg app.Config, b *app.Backend, raw db.Db, from *c08node, in string, key, appName string) (*app.Obs, *c08node, bool) {
	ctx := context.Background()
	raw.SetPrefix(db.DATATYPE_STATE)
	if from.snap != nil {
		raw.Put(ctx, []byte(cfg.SessionId), from.snap)
	} else {
		// mem backend: a missing record is modelled by a fresh session id (records are never deleted)
	}
	pr := app.NewPerRequest(a, cfg, b)
	pr.Res.Calls = cloneCalls(from.calls)
	c.Note(fmt.Sprintf("%s %v + %s", appName, printableHist(from.hist), printable(in)))
	o := pr.Request([]byte(in))
	c.Count("requests", 1)
	defer func() {
		if o.StoredState != nil {
			c.Eval(vk.Hash64(appName, fmt.Sprint(stateHash(o, pr.Res.Calls))), true)
		} else {
			c.Eval(0, false)
		}
	}()
	hist := append(append([]string{}, from.hist...), in)
	cs := func() map[string]interface{} {
		return map[string]interface{}{"app_name": appName, "app": a.Describe(), "config": cfg, "history": printableHist(hist), "history_raw": hist, "last": o.Brief()}
	}
	if o.Panic != "" {
		if strings.HasPrefix(o.Panic, "harness-op-cap") {
			c.Violate("runaway-execution:"+appName, "a request did not reach a HALT within the callback cap", key, cs())
			return o, nil, true
		}
		c.Violate(o.PanicSig, fmt.Sprintf("%s: history %v panics: %s", appName, printableHist(hist), o.Panic), key, cs())
		return o, nil, true
	}
	if sig, msg := sessionInvariants(o.State, o.Cache); sig != "" && o.ExecErr == "" {
		c.Violate("invariant:"+sig, fmt.Sprintf("%s: after history %v: %s", appName, printableHist(hist), msg), key, cs())
		return o, nil, true
	}
	if o.FinishErr != "" {
		c.Violate("cannot-save", fmt.Sprintf("%s: after history %v Finish fails: %s", appName, printableHist(hist), o.FinishErr), key, cs())
		return o, nil, true
	}
	if o.StoredErr != "" {
		c.Violate("cannot-load", fmt.Sprintf("%s: after history %v the saved session cannot be loaded: %s", appName, printableHist(hist), o.StoredErr), key, cs())
		return o, nil, true
	}
	snapAfter, _ := raw.Get(ctx, []byte(cfg.SessionId))
	if o.ExecErr == "" && (!o.StoredState.Equal(o.State) || !o.StoredCache.Equal(o.Cache)) && from.snap != nil && string(snapAfter) == string(from.snap) {
		// the engine did not save at all in this request (e.g. the _first function stopped it before it was
		// initialised): the stored session is the complete previous one, which is consistent
		c.Count("requests_that_did_not_save(dont-care)", 1)
	} else if o.ExecErr == "" && (!o.StoredState.Equal(o.State) || !o.StoredCache.Equal(o.Cache)) {
		c.Violate("saved!=live", fmt.Sprintf("%s: after history %v the stored snapshot differs from the live session", appName, printableHist(hist)), key, cs())
		return o, nil, true
	}
	if o.ExecErr != "" {
		c.Count("requests_with_exec_error", 1)
	}
	if o.FlushErr != "" {
		c.Count("requests_with_flush_error", 1)
	}
	snap, _ := raw.Get(ctx, []byte(cfg.SessionId))
	nn := &c08node{snap: snap, calls: cloneCalls(pr.Res.Calls), hist: hist, ended: !o.Cont}
	return o, nn, false
}

func c08Alphabet(a *app.App) []string {
	al := a.Alphabet()
	seen := map[string]bool{}
	var out []string
	for _, s := range append(al, c08Hostile...) {
		if !seen[s] {
			seen[s] = true
			out = append(out, s)
		}
	}
	return out
}

// exploreC08 does a breadth-first exploration of the session state graph up to depth, bounded by maxReq requests.
func exploreC08(c *vk.Ctx, a *app.App, cfg app.Config, appName, key string, depth, maxReq int) {
	b, err := app.NewBackend("mem")
	if err != nil {
		c.Inconclusive(err.Error())
		return
	}
	raw, _ := b.Handle()
	alpha := c08Alphabet(a)
	frontier := []*c08node{{calls: map[string]int{}}}
	visited := map[uint64]bool{}
	reqs := 0
	sidN := 0
	for d := 0; d < depth && len(frontier) > 0; d++ {
		var next []*c08node
		for _, nd := range frontier {
			inputs := alpha
			if d == 0 {
				inputs = []string{""} // a session starts with the initial empty request
			}
			for _, in := range inputs {
				if reqs >= maxReq {
					c.Count("explorations_cut_by_request_cap", 1)
					return
				}
				reqs++
				if nd.snap == nil {
					sidN++
					cfg.SessionId = fmt.Sprintf("s%d", sidN)
				}
				o, nn, bad := c08Step(c, a, cfg, b, raw, nd, in, key, appName)
				if bad {
					return
				}
				if nn == nil || o.ExecErr != "" {
					continue // behaviour after a failed request is unspecified: do not extend
				}
				h := stateHash(o, nn.calls)
				c.SetAdd("session_states", fmt.Sprintf("%s/%x", appName, h))
				if visited[h] {
					continue
				}
				visited[h] = true
				next = append(next, nn)
			}
		}
		frontier = next
		c.Max("max_depth_explored", int64(d+1))
	}
}

// walkC08 does one long random walk.
func walkC08(c *vk.Ctx, r *vk.RNG, a *app.App, cfg app.Config, appName, key string, steps int) {
	b, err := app.NewBackend("mem")
	if err != nil {
		return
	}
	raw, _ := b.Handle()
	alpha := c08Alphabet(a)
	al := a.Alphabet()
	nd := &c08node{calls: map[string]int{}}
	maxDepth := 0
	errs := 0
	for i := 0; i < steps; i++ {
		in := ""
		if i > 0 {
			if len(al) > 0 && r.Chance(5, 6) {
				in = vk.Pick(r, al)
			} else {
				in = vk.Pick(r, alpha)
			}
		}
		o, nn, bad := c08Step(c, a, cfg, b, raw, nd, in, key, appName)
		if bad || nn == nil {
			return
		}
		if o.State != nil && len(o.State.ExecPath) > maxDepth {
			maxDepth = len(o.State.ExecPath)
		}
		if o.ExecErr != "" {
			// the client may retry with other input; the stored session is what Finish saved
			errs++
			if errs >= 3 {
				break // a session that only answers errors is not worth more budget
			}
		} else {
			errs = 0
		}
		nd = nn
	}
	c.Max("max_stack_depth_in_walk", int64(maxDepth))
}

// c08ManySessions: a long-running server - one flushing persister object serves the requests of hundreds of
// sessions that come and go (each starts, makes a few requests, some with hostile input); no request may panic,
// every stored session keeps the structural invariants, and a session started late behaves like the first one.
func c08ManySessions(c *vk.Ctx) {
	if !c.Mine(3) || !c.Want("many-sessions") {
		return
	}
	c.Begin("many-sessions")
	r := c.RNG("many-sessions")
	p := c08Profile(r)
	p.First = false
	a := app.Generate(r, p)
	cfg := genConfig(r, a, "s0")
	cfg.FlagCount = a.FlagCount
	b, err := app.NewBackend("mem")
	if err != nil {
		c.Inconclusive(err.Error())
		return
	}
	defer b.Cleanup()
	sp := &app.SharedPersister{Mode: "flush"}
	defer sp.Close()
	alpha := c08Alphabet(a)
	n := c.N(320, 2000)
	var firstOut string
	for i := 0; i < n; i++ {
		cf := cfg
		cf.SessionId = fmt.Sprintf("session-%04d", i)
		pr := app.NewPerRequest(a, cf, b)
		pr.Shared = sp
		ins := []string{"", vk.Pick(r, alpha)}
		if r.Chance(1, 4) {
			ins = append(ins, vk.Pick(r, alpha))
		}
		for k, in := range ins {
			o := pr.Request([]byte(in))
			c.EvalN(1, 1)
			c.Count("many_sessions_requests", 1)
			csd := map[string]interface{}{"app": a.Describe(), "config": cf, "session_number": i, "inputs": printableHist(ins[:k+1])}
			if o.Panic != "" {
				c.Violate("many-sessions:"+o.PanicSig, fmt.Sprintf("session %d of one flushing persister, input %s: panic %s", i, printable(in), o.Panic), "many-sessions", csd)
				return
			}
			if o.StoredErr == "" {
				if sig, msg := sessionInvariants(o.StoredState, o.StoredCache); sig != "" {
					c.Violate("many-sessions:invariant:"+sig, fmt.Sprintf("session %d of one flushing persister after input %s: %s", i, printable(in), msg), "many-sessions", csd)
					return
				}
				if o.StoredState != nil && o.StoredState.BitSize != a.FlagCount+8 {
					c.Violate("many-sessions:flag-field-size-drifts", fmt.Sprintf("session %d of one flushing persister is stored with a flag field of %d bits, the application has %d flags (+8)", i, o.StoredState.BitSize, a.FlagCount), "many-sessions", csd)
					return
				}
			}
			if k == 0 {
				if i == 0 {
					firstOut = o.Out
				} else if o.Out != firstOut && o.ExecErr == "" {
					c.Violate("many-sessions:new-session-differs", fmt.Sprintf("the first request of session %d answers %q, that of the first session %q", i, o.Out, firstOut), "many-sessions", csd)
					return
				}
			}
			if !o.Cont || o.ExecErr != "" {
				break
			}
		}
	}
	c.Count("many_sessions", int64(n))
}

func C08() *vk.Check {
	return &vk.Check{
		ID:    "C08",
		Level: "exploration",
		Rule: "applications: every examples/*/ directory of the repository assembled with asm.Parse (external symbols bound to stubs, default _catch added) and generated well-formed applications (descending cycles, CROAK at depth, sinks, failing loads, big results). For each: breadth-first exploration of the session state graph through the persisted driver (the stored snapshot is the branch point, so each edge is one real request with a load and a save) over the alphabet = all selectors of the app + hostile inputs (empty, junk, 255/256/300 bytes, NUL, 0xff, newline, + * < > _ ^ .), " +
			"to depth 4 (quick) / 6 (thorough) or a request cap, then PRNG walks of up to 400 requests (deep enough to pass 128 stack levels). After every request: recover(), cache scopes == stack levels + 1, CacheUseSize == sum of values, limits, single scope per symbol, Finish succeeds, the stored snapshot loads and equals the live session. " +
			"distinct = distinct (application, session state + call counters) reached; non-trivial = every state (each was produced by a real request).",
		Assumptions:    []string{"behaviour after a request that returned an error is unspecified: such states are checked for panics/invariants but not extended", "examples that are not well-formed in the sense of the property (undefined targets, self moves) are skipped and counted"},
		MinEvaluations: 2000,
		Shards:         func(string) int { return 16 },
		Run:            runC08,
	}
}

func c08Profile(r *vk.RNG) app.Profile {
	p := app.DefaultProfile()
	p.Croak = r.Chance(1, 2)
	p.Terminate = r.Chance(1, 4)
	p.BigValues = r.Chance(1, 3)
	p.Lang = r.Chance(1, 4)
	p.FixedSizes = r.Chance(1, 2)
	p.CatchVariants = true
	p.First = r.Chance(1, 3)
	return p
}

func runC08(c *vk.Ctx) {
	c08ManySessions(c)
	depth := c.N(4, 6)
	capReq := c.N(8000, 60000)
	idx := 0
	states := func() {}
	_ = states
	// (i) repository examples
	for _, dir := range app.ExampleDirs(repoDir()) {
		name := "example:" + dir[strings.LastIndex(dir, "/")+1:]
		for _, osz := range []uint32{0, 40, 160} {
			mine := c.Mine(idx)
			idx++
			key := fmt.Sprintf("%s/out%d", name, osz)
			if !mine || !c.Want(key) {
				continue
			}
			a, err := app.LoadExample(dir)
			if err != nil {
				c.Count("examples_skipped_not_wellformed_or_unassemblable", 1)
				c.SetAdd("skipped_examples", name+": "+err.Error())
				continue
			}
			c.Begin(key)
			cfg := app.Config{OutputSize: osz, FlagCount: a.FlagCount, SessionId: "s", Root: "root"}
			exploreC08(c, a, cfg, name, key, depth, capReq)
			r := c.RNG(key)
			walkC08(c, r, a, cfg, name, key, c.N(150, 400))
			c.Count("example_explorations", 1)
		}
	}
	// (ii) generated applications
	n := c.N(1600, 12000)
	for i := 0; i < n; i++ {
		mine := c.Mine(idx)
		idx++
		key := fmt.Sprintf("gen/%d", i)
		if !mine || !c.Want(key) {
			continue
		}
		r := c.RNG(key)
		a := app.Generate(r, c08Profile(r))
		cfg := genConfig(r, a, "s")
		cfg.First = a.Funcs["_first"] != nil
		cfg.ResetOnEmptyInput = r.Chance(1, 4)
		cfg.PersisterContent = i%5 == 4
		cfg.FuncUsesStore = i%6 == 5 // the functions keep user data in the store handle that holds the session
		c.Begin(key)
		if cfg.PersisterContent {
			c.Count("explorations_with_client_created_state_and_cache", 1)
		}
		if cfg.First {
			c.Count("explorations_with_first_function", 1)
		}
		if cfg.ResetOnEmptyInput {
			c.Count("explorations_with_reset_on_empty_input", 1)
		}
		if i < 1 {
			c.Sample(map[string]interface{}{"key": key, "app": a.Describe(), "config": cfg, "alphabet": printableHist(c08Alphabet(a))})
		}
		exploreC08(c, a, cfg, key, key, depth, capReq/2)
		walkC08(c, r, a, cfg, key, key, c.N(200, 400))
		c.Count("generated_explorations", 1)
		if err := a.CheckCanaries(); err != nil {
			c.Violate("shared-data-modified", err.Error(), key, map[string]interface{}{"app": a.Describe()})
		}
	}
	// (iii) the level limit lowered by the application
	c08LoweredLevelLimit(c, &idx)
}

// c08LoweredLevelLimit: the application bounds the session depth by lowering the exported state.MaxLevel (as the
// library's own state tests do); clients that keep descending must be refused with an error at the limit in force,
// never crash the engine, and the stored session must keep its invariants.
func c08LoweredLevelLimit(c *vk.Ctx, idx *int) {
	n := c.N(60, 600)
	for i := 0; i < n; i++ {
		mine := c.Mine(*idx)
		*idx++
		limit := []int{3, 4, 6, 9, 17}[i%5]
		key := fmt.Sprintf("maxlevel/%d/%d", limit, i)
		if !mine || !c.Want(key) {
			continue
		}
		r := c.RNG(key)
		a := app.Generate(r, c08Profile(r))
		cfg := genConfig(r, a, "s")
		cfg.First = a.Funcs["_first"] != nil
		c.Begin(key)
		func() {
			old := state.MaxLevel
			state.MaxLevel = limit
			defer func() { state.MaxLevel = old }()
			exploreC08(c, a, cfg, key, key, 4, 2000)
			walkC08(c, r, a, cfg, key, key, c.N(200, 400))
		}()
		c.Count("explorations_with_a_lowered_level_limit", 1)
	}
}

// repoDir is the checkout under test (run.sh exports VERIF_REPO; default /repo).
func repoDir() string {
	if d := os.Getenv("VERIF_REPO"); d != "" {
		return d
	}
	return "/repo"
}
