package checks

import (
	"bytes"
	"fmt"
	"os"
	"os/exec"
	"path/filepath"
	"sort"
	"strings"

	"verif/harness/codec"
	"verif/harness/vk"
)

// c16CLI: the assembler command (dev/asm) with its flag preprocessor (-f flags.csv). The command is built from the
// tree under test and run as a process on generated clean sources in which some CATCH/CROAK flag numbers are
// written as names from the CSV file, and in which the CSV file also defines flags that are spelled like symbols,
// nodes and labels of the program. Its standard output, decoded by the harness decoder, must be the instructions
// that were written: names translated in the flag position of CATCH and CROAK, and nowhere else.
func c16CLI(c *vk.Ctx) {
	repo := repoDir()
	tmp, err := os.MkdirTemp("", "c16cli-")
	if err != nil {
		c.Inconclusive(err.Error())
		return
	}
	defer os.RemoveAll(tmp)
	bin := filepath.Join(tmp, "asm")
	cmd := exec.Command("go", "build", "-o", bin, "./dev/asm")
	cmd.Dir = repo
	if out, err := cmd.CombinedOutput(); err != nil {
		c.Inconclusive("dev/asm does not build: " + trunc2(string(out), 300))
		return
	}
	n := c.N(150, 3000)
	for i := 0; i < n; i++ {
		key := fmt.Sprintf("cli/%d", i)
		r := c.RNG(key)
		src := genC16(r, false)
		flags := map[string]uint32{} // name -> index
		byNum := map[uint32]string{}
		var text strings.Builder
		expect := append([]codec.Ins{}, src.Expect...)
		// flags spelled like the program's own names
		var names []string
		for _, ln := range src.Lines {
			for _, a := range ln.Args {
				if len(a) > 0 && len(a) < 40 && (a[0] >= 'a' && a[0] <= 'z') {
					names = append(names, a)
				}
			}
		}
		sort.Strings(names)
		collide := 0
		for _, nm := range names {
			if _, dup := flags[nm]; !dup && r.Chance(1, 2) {
				flags[nm] = uint32(8 + len(flags))
				collide++
			}
		}
		for _, ln := range src.Lines {
			args := append([]string{}, ln.Args...)
			pos := -1
			switch ln.Mnemonic {
			case "CATCH":
				pos = 1
			case "CROAK":
				pos = 0
			}
			if pos >= 0 && r.Chance(2, 3) {
				var num uint32
				fmt.Sscan(args[pos], &num)
				if num >= 8 {
					nm, ok := byNum[num]
					if !ok {
						nm = fmt.Sprintf("flag_%d", len(byNum))
						if _, taken := flags[nm]; !taken {
							byNum[num] = nm
							flags[nm] = num
							ok = true
						}
					}
					if ok {
						args[pos] = nm
					}
				}
			}
			text.WriteString(ln.Mnemonic)
			for _, a := range args {
				text.WriteString(" " + a)
			}
			text.WriteString("\n")
		}
		var csv strings.Builder
		fnames := make([]string, 0, len(flags))
		for nm := range flags {
			fnames = append(fnames, nm)
		}
		sort.Strings(fnames)
		for _, nm := range fnames {
			fmt.Fprintf(&csv, "flag,%s,%d,description of %s\n", nm, flags[nm], nm)
		}
		sp := filepath.Join(tmp, "src.vis")
		fp := filepath.Join(tmp, "flags.csv")
		os.WriteFile(sp, []byte(text.String()), 0600)
		os.WriteFile(fp, []byte(csv.String()), 0600)
		var stdout, stderr bytes.Buffer
		run := exec.Command(bin, "-f", fp, sp)
		if i%4 == 3 {
			// the source comes through a pipe (cat a.vis | asm /dev/stdin): a path that is not a regular file
			run = exec.Command(bin, "-f", fp, "/dev/stdin")
			run.Stdin = strings.NewReader(text.String())
			c.Count("cli_runs_reading_a_pipe", 1)
		}
		run.Stdout, run.Stderr = &stdout, &stderr
		rerr := run.Run()
		c.Eval(vk.Hash64(key, text.String()), len(src.Lines) >= 2)
		c.Count("cli_runs", 1)
		c.Count("cli_flag_names_spelled_like_program_names", int64(collide))
		c.Count("cli_flag_names_in_catch_croak", int64(len(byNum)))
		csd := map[string]interface{}{"source": text.String(), "flags_csv": csv.String(), "stderr": trunc2(stderr.String(), 400)}
		if rerr != nil {
			c.Violate("cli:fails", fmt.Sprintf("dev/asm -f flags.csv fails on a valid source: %v: %s", rerr, trunc2(stderr.String(), 300)), key, csd)
			continue
		}
		got, class, _ := codec.Decode(stdout.Bytes())
		if class != codec.Valid || !codec.Equal(got, expect) {
			k := 0
			for k < len(got) && k < len(expect) && got[k] == expect[k] {
				k++
			}
			w, g := "(none)", "(none)"
			if k < len(expect) {
				w = codec.Strings(expect[k : k+1])[0]
			}
			if k < len(got) {
				g = codec.Strings(got[k : k+1])[0]
			}
			what := "other"
			if k < len(expect) {
				what = codec.OpName[expect[k].Op]
			}
			c.Violate("cli:altered:"+what, fmt.Sprintf("dev/asm -f flags.csv: instruction %d written as %q comes out as %q (output class %s)", k, w, g, class), key, csd)
		}
	}
}
