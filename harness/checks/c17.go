package checks

import (
	"bytes"
	"context"
	"fmt"
	"git.defalsify.org/vise.git/engine"
	"git.defalsify.org/vise.git/persist"
	"git.defalsify.org/vise.git/vm"
	"strings"

	"verif/harness/app"
	"verif/harness/vk"
)

// ---------------------------------------------------------------------------------------------
// C17 — refused input has no effect (two-run comparison H vs H with r inserted)

// harnessRefuses is the harness's own reading of "does not match any accepted input format, or longer than the limit".
func harnessRefuses(in string) bool {
	if len(in) == 0 {
		return false
	}
	if len(in) > 255 {
		return true
	}
	s := in
	if s[0] == '+' {
		s = s[1:]
	}
	if len(s) == 0 {
		return true
	}
	c := s[0]
	if !(c >= 'a' && c <= 'z' || c >= 'A' && c <= 'Z' || c >= '0' && c <= '9') {
		return true
	}
	return strings.Contains(s, "\n")
}

func refusedInputs(r *vk.RNG) []string {
	var l []string
	// every single byte that cannot start an input
	for b := 0; b < 256; b++ {
		c := byte(b)
		if c >= 'a' && c <= 'z' || c >= 'A' && c <= 'Z' || c >= '0' && c <= '9' || c == '+' {
			continue
		}
		l = append(l, string([]byte{c}), string([]byte{c, '1'}))
	}
	l = append(l, "+", "+-", "+ 1", "++1", "1\n2", "a\n", "+1\n", "\n1", " 1", "\xff\xfe", "é", "*", "<", ">", "_", "^", ".",
		strings.Repeat("a", 256), strings.Repeat("1", 257), strings.Repeat("z", 300), "+"+strings.Repeat("9", 255), strings.Repeat("q", 70000),
		// longer than the limit in bytes, shorter in characters
		"1"+strings.Repeat("é", 128), strings.Repeat("€", 86), strings.Repeat("1", 200)+strings.Repeat("𝄞", 14))
	return l
}

func refusedClass(in string) string {
	switch {
	case len(in) > 255:
		return "too-long"
	case strings.Contains(in, "\n"):
		return "newline"
	}
	return "bad-format"
}

type c17driver interface {
	Request(input []byte) *app.Obs
	Close()
}

func C17() *vk.Check {
	return &vk.Check{
		ID:    "C17",
		Level: "exploration",
		Rule: "two-run comparison, no model: a generated application/configuration/history H is served once as is and once with a refused input r inserted at position i (every i for a sample of r; r ranges over every single byte that cannot start an input (alone and followed by '1'), '+' forms, embedded newlines, invalid UTF-8, 256/257/300/70000-byte strings), in the long-lived and in the persisted driver. " +
			"Oracle: the refused request returns an error, triggers no code/template/function callback, Flush after it yields nothing, the state/cache snapshots (live objects; decoded stored snapshot) around it are equal, and every later output/continue flag/error class equals the run without r. Also: Flush before the first Exec is refused without output or callbacks and changes nothing later. " +
			"distinct = hash(app, history, r, i, driver); non-trivial = at least one accepted request follows the refused one.",
		Assumptions:    []string{"the harness's own reading of the accepted input format ([+]alnum first, no newline, <=255 bytes) decides what must be refused", "no WithFirst hook installed (it runs before validation by design)"},
		MinEvaluations: 500,
		Shards:         func(string) int { return 16 },
		Run:            runC17,
	}
}

func runC17(c *vk.Ctx) {
	// the application has registered a custom input format (engine.AddValidInput); what matches neither that nor
	// the built-in format is still refused
	vm.RegisterInputValidator(7001, "^#r[0-9]+x[0-9]+$")
	// ... and once tried to register an expression that does not compile; the registration was refused with an
	// error, which must be the end of it
	if err := vm.RegisterInputValidator(7002, "^#(unbalanced[0-9]+$"); err == nil {
		c.Inconclusive("an expression that does not compile was registered without error")
	}
	n := c.N(1200, 40000)
	for i := 0; i < n; i++ {
		if !c.Mine(i) {
			continue
		}
		key := fmt.Sprintf("case/%d", i)
		if !c.Want(key) {
			continue
		}
		r := c.RNG(key)
		p := c07Profile(r)
		a := app.Generate(r, p)
		cfg := genConfigDiff(r, a, "ses1")
		if i%3 == 0 {
			cfg.ResetOnEmptyInput = true // the option that makes "empty" inputs special: whitespace-only refused inputs must not count as empty
		}
		hist := a.History(r, r.Range(2, 12))
		refs := refusedInputs(r)
		if cfg.ResetOnEmptyInput {
			// more weight on the refused inputs that are "almost empty"
			refs = append(refs, " ", "  ", "\t", "\n", "\r\n", "\t ", " \n", "\x00", "\v", "\f")
			refs = append(refs, " ", "\n", "\r\n", "\t")
			c.Count("cases_with_reset_on_empty_input", 1)
		}
		c.Begin(key)
		{
			// histories that stay inside the session
			ll := app.NewLongLived(a, cfg)
			var h []string
			for _, in := range hist {
				o := ll.Request([]byte(in))
				if !o.Cont || o.ExecErr != "" || o.FlushErr != "" || o.Panic != "" {
					break
				}
				h = append(h, in)
			}
			ll.Close()
			if len(h) >= 2 {
				rl := c.RNG(key + "/llp")
				for _, pos := range []int{len(h), 0, rl.Range(1, len(h)-1)} {
					c17LongLivedPersisted(c, key, a, cfg, h, vk.Pick(rl, refs), pos)
				}
			}
		}
		for _, drv := range []string{"long", "mem", "fs", "resume", "resume-some"} {
			mk := func() (c17driver, *app.Backend) {
				if drv == "long" || strings.HasPrefix(drv, "resume") {
					d := app.NewLongLived(a, cfg)
					d.FlushAfterError = true
					d.Recreate = drv == "resume" // a new engine over the same state and cache objects for every request
					if drv == "resume-some" {
						// ... or after every second or third request (an engine that has served some requests is replaced)
						k := 2 + i%2
						d.RecreateWhen = func(n int) bool { return n%k == 0 }
					}
					return d, nil
				}
				b, _ := app.NewBackend(drv)
				d := app.NewPerRequest(a, cfg, b)
				d.FlushAfterError = true
				return d, b
			}
			// reference run
			d0, b0 := mk()
			var ref []*app.Obs
			for _, in := range hist {
				o := d0.Request([]byte(in))
				ref = append(ref, o)
				if !o.Cont || o.ExecErr != "" || o.FlushErr != "" || o.Panic != "" {
					break
				}
			}
			d0.Close()
			if b0 != nil {
				b0.Cleanup()
			}
			// pre-flush variant
			{
				d, b := mk()
				switch x := d.(type) {
				case *app.LongLived:
					x.PreFlush = true
				case *app.PerRequest:
					x.PreFlush = true
				}
				for step := range ref {
					o := d.Request([]byte(hist[step]))
					cs := map[string]interface{}{"driver": drv, "app": a.Describe(), "config": cfg, "history": hist[:step+1], "variant": "flush before exec"}
					if o.PreFlushed {
						c.Count("preflush_requests", 1)
						if o.PreFlushErr == "" || o.PreFlushOut != "" {
							c.Violate("flush-before-exec-not-refused:"+drv, fmt.Sprintf("Flush before any Exec returned out=%q err=%q", o.PreFlushOut, o.PreFlushErr), key, cs)
							break
						}
						if len(o.PreFlushEvents) > 0 {
							c.Violate("flush-before-exec-side-effect:"+drv, fmt.Sprintf("Flush before any Exec made callbacks %v", o.PreFlushEvents), key, cs)
							break
						}
					}
					if !sameObs(o, ref[step]) {
						c.Violate("flush-before-exec-changes-later:"+drv, fmt.Sprintf("step %d: with pre-flush %s | without %s", step, o.Brief(), ref[step].Brief()), key, cs)
						break
					}
				}
				d.Close()
				if b != nil {
					b.Cleanup()
				}
			}
			// insertion runs
			positions := make([]int, 0, len(ref)+1)
			for pos := 0; pos <= len(ref); pos++ {
				positions = append(positions, pos)
			}
			for _, pos := range positions {
				if pos < len(ref) && pos > 0 && !ref[pos-1].Cont {
					continue
				}
				if pos == len(ref) && (len(ref) == 0 || !ref[pos-1].Cont || ref[pos-1].ExecErr != "" || ref[pos-1].FlushErr != "" || ref[pos-1].Panic != "") {
					continue
				}
				rin := vk.Pick(r, refs)
				d, b := mk()
				bad := false
				var prev *app.Obs
				step := 0
				for k := 0; k <= len(ref) && !bad; k++ {
					if k == pos {
						c.Note(fmt.Sprintf("%s refused %s at %d", drv, printable(rin), pos))
						o := d.Request([]byte(rin))
						c.Count("refused_requests", 1)
						c.SetAdd("refused_inputs_used", printable(rin))
						cs := map[string]interface{}{"driver": drv, "app": a.Describe(), "config": cfg, "history": hist[:min(len(hist), len(ref))], "refused_input": printable(rin), "position": pos, "obs": o.Brief()}
						cl := refusedClass(rin)
						switch {
						case o.Panic != "":
							c.Violate("refused-input-panics:"+cl+":"+o.PanicSig, "refused input panics: "+o.Panic, key, cs)
							bad = true
						case o.ExecErr == "":
							c.Violate("refusal-missing:"+cl, fmt.Sprintf("input %s was executed without error", printable(rin)), key, cs)
							bad = true
						case o.Out != "" || (o.Flushed && o.FlushErr == ""):
							c.Violate("flush-after-refusal:"+cl+":"+drv, fmt.Sprintf("Flush after the refused Exec returned out=%q err=%q", o.Out, o.FlushErr), key, cs)
							bad = true
						}
						if !bad {
							for _, e := range o.Events {
								if e.Kind == "call" || e.Kind == "code" || e.Kind == "template" || e.Kind == "funcfor" {
									c.Violate("refused-input-executes:"+cl+":"+e.Kind, fmt.Sprintf("refused input %s triggered callback %s", printable(rin), e), key, cs)
									bad = true
									break
								}
							}
						}
						if !bad && prev != nil {
							// snapshots around the refused request
							if drv == "long" || strings.HasPrefix(drv, "resume") {
								if !o.State.Equal(prev.State) || !o.Cache.Equal(prev.Cache) {
									c.Violate("refused-input-mutates:"+cl+":"+drv+":"+whatDiffers(prev.State, o.State, prev.Cache, o.Cache), fmt.Sprintf("live session differs around refused input %s: before %+v after %+v", printable(rin), prev.State, o.State), key, cs)
									bad = true
								}
							} else if o.StoredErr == "" && prev.StoredErr == "" {
								if !o.StoredState.Equal(prev.StoredState) || !o.StoredCache.Equal(prev.StoredCache) {
									c.Violate("refused-input-mutates:"+cl+":"+drv+":"+whatDiffers(prev.StoredState, o.StoredState, prev.StoredCache, o.StoredCache), fmt.Sprintf("stored session differs around refused input %s: before %+v after %+v", printable(rin), prev.StoredState, o.StoredState), key, cs)
									bad = true
								}
							}
							c.Count("snapshots_compared_around_refusal", 1)
						}
					}
					if k == len(ref) || bad {
						break
					}
					o := d.Request([]byte(hist[k]))
					step++
					if !sameObs(o, ref[k]) {
						c.Violate("later-request-differs:"+refusedClass(rin)+":"+drv+":"+obsDiff(o, ref[k]), fmt.Sprintf("refused %s inserted at %d; step %d: with %s | without %s", printable(rin), pos, k, o.Brief(), ref[k].Brief()), key,
							map[string]interface{}{"driver": drv, "app": a.Describe(), "config": cfg, "history": hist[:k+1], "refused_input": printable(rin), "position": pos})
						bad = true
					}
					prev = o
				}
				d.Close()
				if b != nil {
					b.Cleanup()
				}
				c.Eval(vk.Hash64(key, drv, rin, fmt.Sprint(pos)), pos < len(ref))
				if i < 1 && drv == "long" && pos == 1 {
					c.Sample(map[string]interface{}{"key": key, "driver": drv, "history": hist, "refused_input": printable(rin), "inserted_at": pos})
				}
			}
		}
	}
}

func sameObs(a, b *app.Obs) bool {
	return a.Cont == b.Cont && app.ErrClass(a.ExecErr) == app.ErrClass(b.ExecErr) && app.ErrClass(a.FlushErr) == app.ErrClass(b.FlushErr) && a.Out == b.Out && (a.Panic == "") == (b.Panic == "")
}

func obsDiff(a, b *app.Obs) string {
	switch {
	case a.Out != b.Out:
		return "output"
	case a.Cont != b.Cont:
		return "cont"
	case app.ErrClass(a.ExecErr) != app.ErrClass(b.ExecErr):
		return "exec-error"
	case app.ErrClass(a.FlushErr) != app.ErrClass(b.FlushErr):
		return "flush-error"
	}
	return "panic"
}

func whatDiffers(s1, s2 *app.StateSnap, c1, c2 *app.CacheSnap) string {
	if s1 != nil && s2 != nil {
		switch {
		case fmt.Sprint(s1.ExecPath) != fmt.Sprint(s2.ExecPath) || s1.SizeIdx != s2.SizeIdx:
			return "position"
		case string(s1.Flags) != string(s2.Flags):
			return "flags"
		case string(s1.Code) != string(s2.Code):
			return "code"
		case s1.Lang != s2.Lang:
			return "language"
		case s1.Moves != s2.Moves:
			return "moves"
		}
	}
	if !c1.Equal(c2) {
		return "cache"
	}
	return "other"
}

// c17LongLivedPersisted: one engine with a persister serves the whole history and saves at the end (the way
// engine.Loop runs a session). A refused input at any position - first request, in between, last before Finish -
// must change neither the answers to the accepted requests nor what gets stored.
func c17LongLivedPersisted(c *vk.Ctx, key string, a *app.App, cfg app.Config, hist []string, rin string, pos int) {
	type result struct {
		outs []string
		st   *app.StateSnap
		ca   *app.CacheSnap
		lerr string
		ok   bool
	}
	run := func(refusedAt int) result {
		var res result
		b, err := app.NewBackend("mem")
		if err != nil {
			return res
		}
		defer b.Cleanup()
		store, _ := b.Handle()
		rr := app.NewRecRes(a)
		ctx := context.Background()
		res.ok = true
		pv, _ := vk.Guard(func() {
			en := engine.NewEngine(cfg.Engine(), rr).WithPersister(persist.NewPersister(store))
			refuse := func() {
				if _, err := en.Exec(ctx, []byte(rin)); err == nil {
					res.ok = false // not refused: other legs report that
				}
			}
			for k, in := range hist {
				if k == refusedAt {
					refuse()
				}
				cont, err := en.Exec(ctx, []byte(in))
				var buf bytes.Buffer
				var ferr error
				if err == nil {
					_, ferr = en.Flush(ctx, &buf)
				}
				res.outs = append(res.outs, fmt.Sprintf("cont=%v exec=%s flush=%s out=%q", cont, app.ErrClass(errString(err)), app.ErrClass(errString(ferr)), buf.String()))
				if err != nil || ferr != nil || !cont {
					break
				}
			}
			if refusedAt == len(hist) {
				refuse()
			}
			if err := en.Finish(ctx); err != nil {
				res.outs = append(res.outs, "finish: "+err.Error())
			}
		})
		if pv != nil {
			res.outs = append(res.outs, fmt.Sprintf("panic: %v", pv))
		}
		pr := app.NewPerRequest(a, cfg, b)
		res.st, res.ca, res.lerr = pr.ReadStored()
		return res
	}
	r0 := run(-1)
	r1 := run(pos)
	if !r0.ok || !r1.ok {
		return
	}
	c.EvalN(1, 1)
	c.Count("long_lived_persisted_pairs", 1)
	where := "in between"
	if pos == 0 {
		where = "first"
	} else if pos == len(hist) {
		where = "last"
	}
	csd := map[string]interface{}{"app": a.Describe(), "config": cfg, "history": hist, "refused_input": printable(rin), "position": pos}
	if strings.Join(r0.outs, "\n") != strings.Join(r1.outs, "\n") {
		k := 0
		for k < len(r0.outs) && k < len(r1.outs) && r0.outs[k] == r1.outs[k] {
			k++
		}
		w, g := "(none)", "(none)"
		if k < len(r0.outs) {
			w = r0.outs[k]
		}
		if k < len(r1.outs) {
			g = r1.outs[k]
		}
		c.Violate("long-lived-persisted:later-request-differs:"+refusedClass(rin)+":"+where, fmt.Sprintf("one engine with a persister, refused input %s as %s request: step %d answers %s, without the refused input %s", printable(rin), where, k, g, w), key, csd)
		return
	}
	if r0.lerr != r1.lerr || !r0.st.Equal(r1.st) || !r0.ca.Equal(r1.ca) {
		c.Violate("refused-last-input-changes-what-is-saved:"+refusedClass(rin), fmt.Sprintf("one engine with a persister serves %v and saves at the end: stored %+v (load error %q); with the refused input %s at position %d: stored %+v (load error %q)", printableHist(hist), r0.st, r0.lerr, printable(rin), pos, r1.st, r1.lerr), key, csd)
	}
}

func errString(err error) string {
	if err == nil {
		return ""
	}
	return err.Error()
}
