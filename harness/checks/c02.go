package checks

import (
	"fmt"
	"strings"

	"verif/harness/app"
	"verif/harness/codec"
	"verif/harness/vk"
)

// ---------------------------------------------------------------------------------------------
// C02 — paginated sink content: complete, ordered, navigable

func C02() *vk.Check {
	return &vk.Check{
		ID:    "C02",
		Level: "exploration",
		Rule: "render layer: render.Page+Menu+Sizer are configured the way the VM does and page 0,1,2,... of one configuration are rendered until an error; templates wrap the sink placeholder in marker bytes so each page's sink section can be cut out exactly. Relation: every page equals static text + non-sink values + section + ordinary menu + next (all but last) + previous (all but first); join(sections,LF) == original content (rows 0..40, lengths 0..30, empty / leading-empty / consecutive-empty / trailing-empty rows; MSINK: the rendered menu lines); indexes k and k+1 return an error; every page <= size. Sizes: dense sweep from 'nothing fits' to 'everything on one page' in steps of 1. " +
			"engine layer: the same content behind LOAD..0 / MSINK is walked with the real next/previous selectors forwards past the end and backwards before the start, in the long-lived and the persisted driver. distinct = hash(configuration, size); non-trivial = the walk produced at least 2 pages.",
		Assumptions:    []string{"break-position policy is not checked: any packing that satisfies the relation passes", "a configuration in which no first page fits may fail as a whole"},
		MinEvaluations: 1000,
		Shards:         func(string) int { return 16 },
		Run:            runC02,
	}
}

func runC02(c *vk.Ctx) {
	n := c.N(1500, 60000)
	cnt := func(name string, v int64) { c.Count(name, v) }
	for i := 0; i < n; i++ {
		if !c.Mine(i) {
			continue
		}
		key := fmt.Sprintf("render/%d", i)
		if !c.Want(key) {
			continue
		}
		r := c.RNG(key)
		kind := 1
		if i%4 == 3 {
			kind = 2
		}
		rc := genRCase(r, kind)
		c.Begin(key)
		if i < 1 {
			c.Sample(map[string]interface{}{"key": key, "case": rc, "sizes": "dense sweep"})
		}
		for _, size := range sizesFor(rc, r, true) {
			before := int64(0)
			multi := false
			sig, msg := walkPages(rc, size, func(name string, v int64) {
				cnt(name, v)
				if name == "multi_page_walks" {
					multi = true
				}
			})
			_ = before
			c.Eval(vk.Hash64(key, fmt.Sprint(size)), multi)
			if sig != "" {
				c.Violate(sig, msg, key, map[string]interface{}{"case": rc, "size": size, "template": rc.template()})
				continue
			}
		}
	}
	// engine layer
	ne := c.N(300, 12000)
	for i := 0; i < ne; i++ {
		if !c.Mine(i) {
			continue
		}
		key := fmt.Sprintf("engine/%d", i)
		if !c.Want(key) {
			continue
		}
		r := c.RNG(key)
		kind := 1
		if i%4 == 3 {
			kind = 2
		}
		rc := genRCase(r, kind)
		rc.ErrPfx = ""
		rc.Sep = ""
		c.Begin(key)
		sizes := sizesFor(rc, r, false)
		for _, size := range sizes {
			for _, drv := range []string{"long", "mem"} {
				sig, msg, pages := engineWalk(rc, size, drv, c)
				c.Eval(vk.Hash64(key, fmt.Sprint(size), drv), pages >= 2)
				if sig != "" {
					c.Violate("engine:"+sig, msg, key, map[string]interface{}{"case": rc, "size": size, "driver": drv, "template": rc.template()})
					continue
				}
			}
		}
	}
}

// pagedApp builds root (menu to the paged node) -> paged node.
func pagedApp(rc *rcase) *app.App {
	a := app.NewApp()
	var code []codec.Ins
	for _, k := range rc.Order {
		code = append(code, codec.Ins{Op: codec.LOAD, S1: k, N: uint32(rc.Sizes[k])})
		a.Funcs[k] = &app.FuncSpec{Sym: k, Kind: "fixed", Fixed: rc.Values[k]}
	}
	if rc.HasSink {
		code = append(code, codec.Ins{Op: codec.LOAD, S1: "snk", N: 0})
		a.Funcs["snk"] = &app.FuncSpec{Sym: "snk", Kind: "rows", Rows: rc.Rows}
	}
	for _, k := range rc.Order {
		code = append(code, codec.Ins{Op: codec.MAP, S1: k})
	}
	if rc.HasSink {
		code = append(code, codec.Ins{Op: codec.MAP, S1: "snk"})
	}
	for _, m := range rc.Menu {
		code = append(code, codec.Ins{Op: codec.MOUT, S1: m[1], S2: m[0]})
	}
	if rc.Next != nil {
		code = append(code, codec.Ins{Op: codec.MNEXT, S1: rc.Next[1], S2: rc.Next[0]})
	}
	if rc.Prev != nil {
		code = append(code, codec.Ins{Op: codec.MPREV, S1: rc.Prev[1], S2: rc.Prev[0]})
	}
	if rc.MSink {
		code = append(code, codec.Ins{Op: codec.MSINK})
	}
	code = append(code, codec.Ins{Op: codec.HALT})
	code = append(code, codec.Ins{Op: codec.INCMP, S1: ">", S2: "nx"})
	code = append(code, codec.Ins{Op: codec.INCMP, S1: "<", S2: "pv"})
	code = append(code, codec.Ins{Op: codec.INCMP, S1: "other", S2: "go"})
	code = append(code, codec.Ins{Op: codec.INCMP, S1: "lg", S2: "lg"})
	a.AddNode(&app.Node{Name: "root", Code: code, Template: rc.template()})
	// a second paginated node with a different sink (a zero-size symbol when root pages its menu, and vice versa)
	var oc []codec.Ins
	if rc.MSink {
		oc = append(oc, codec.Ins{Op: codec.LOAD, S1: "osnk", N: 0}, codec.Ins{Op: codec.MAP, S1: "osnk"}, codec.Ins{Op: codec.MOUT, S1: "oback", S2: "bk"})
	} else {
		for k := 0; k < 9; k++ {
			oc = append(oc, codec.Ins{Op: codec.MOUT, S1: fmt.Sprintf("other_entry_%d", k), S2: fmt.Sprint(k)})
		}
	}
	oc = append(oc, codec.Ins{Op: codec.MNEXT, S1: "onext", S2: "nx"}, codec.Ins{Op: codec.MPREV, S1: "oprev", S2: "pv"})
	if !rc.MSink {
		oc = append(oc, codec.Ins{Op: codec.MSINK})
	}
	oc = append(oc, codec.Ins{Op: codec.HALT}, codec.Ins{Op: codec.INCMP, S1: ">", S2: "nx"}, codec.Ins{Op: codec.INCMP, S1: "<", S2: "pv"}, codec.Ins{Op: codec.INCMP, S1: "_", S2: "bk"}, codec.Ins{Op: codec.INCMP, S1: "_", S2: "*"})
	otpl := "other node"
	if rc.MSink {
		otpl = "other node\n{{.osnk}}"
	}
	a.AddNode(&app.Node{Name: "other", Code: oc, Template: otpl})
	a.Funcs["osnk"] = &app.FuncSpec{Sym: "osnk", Kind: "rows", Rows: []string{"o0", "o1", "o2", "o3", "o4", "o5", "o6", "o7", "o8", "o9"}}
	a.AddNode(&app.Node{Name: "_catch", Template: "CATCHPAGE", Code: []codec.Ins{{Op: codec.HALT}, {Op: codec.INCMP, S1: "_", S2: "*"}}})
	for l, t := range rc.Labels {
		a.Labels[l] = t
	}
	// a node that switches the session to Norwegian and returns; every label has a longer Norwegian text
	a.AddNode(&app.Node{Name: "lg", Template: "language", Code: []codec.Ins{{Op: codec.LOAD, S1: "setlang", N: 8}, {Op: codec.MOVE, S1: "_"}}})
	a.Funcs["setlang"] = &app.FuncSpec{Sym: "setlang", Kind: "lang", Codes: []string{"nor"}, FlagSet: [][]uint32{{7}}}
	a.Trans["nor"] = map[string]string{}
	for l, t := range rc.Labels {
		a.Trans["nor"]["m:"+l] = t + " på norsk"
	}
	for _, br := range []*[2]string{rc.Next, rc.Prev} {
		if br != nil {
			if _, ok := a.Trans["nor"]["m:"+br[1]]; !ok {
				a.Trans["nor"]["m:"+br[1]] = br[1] + " (videre)"
			}
		}
	}
	a.FlagCount = 1
	a.Finalize()
	return a
}

// engineWalk walks the paged node forwards with the next selector until past the end, then backwards.
func engineWalk(rc *rcase, size uint32, drv string, c *vk.Ctx) (string, string, int) {
	a := pagedApp(rc)
	cfg := app.Config{OutputSize: size, FlagCount: 1, SessionId: "s", Root: "root"}
	if size%2 == 1 {
		// a side-effect free pre-VM function (Engine.WithFirst): it runs again with every per-request engine and
		// must not move the page position
		a.Funcs["_first"] = &app.FuncSpec{Sym: "_first", Kind: "idlang"}
		cfg.First = true
		c.Count("engine_walks_with_first_function", 1)
	}
	var d app.Driver
	var b *app.Backend
	if drv == "long" {
		d = app.NewLongLived(a, cfg)
	} else {
		b, _ = app.NewBackend(drv)
		pr := app.NewPerRequest(a, cfg, b)
		pr.SkipStoredRead = true
		d = pr
		defer b.Cleanup()
	}
	defer d.Close()
	value := rc.sinkValue()
	if rc.MSink {
		value = strings.Join(rc.menuLines(), "\n")
	}
	var outs []string
	o := d.Request([]byte(""))
	c.Count("engine_requests", 1)
	if o.Panic != "" {
		return o.PanicSig, "first render panics: " + o.Panic, 0
	}
	if o.ExecErr != "" || o.FlushErr != "" {
		return "", "", 0 // nothing fits
	}
	outs = append(outs, o.Out)
	pastEnd := ""
	for step := 0; step < 200; step++ {
		o = d.Request([]byte("nx"))
		c.Count("engine_requests", 1)
		if o.Panic != "" {
			return o.PanicSig + ":next", fmt.Sprintf("size %d: 'next' after %d pages panics: %s", size, len(outs), o.Panic), len(outs)
		}
		if size > 0 && uint32(len(o.Out)) > size {
			return "oversize-page", fmt.Sprintf("size %d: output of %d bytes: %q", size, len(o.Out), o.Out), len(outs)
		}
		if o.ExecErr != "" || o.FlushErr != "" || strings.Contains(o.Out, "CATCHPAGE") {
			pastEnd = o.Brief()
			break
		}
		outs = append(outs, o.Out)
	}
	k := len(outs)
	if pastEnd == "" {
		return "unbounded-pages", "more than 200 pages", k
	}
	if size == 0 {
		return "", "", k
	}
	if rc.offersNext(outs[k-1], k == 1) {
		return "offered-next-page-fails:" + errClass(o.FlushErr+o.ExecErr) + ":" + pageKind(rc) + ":" + rc.browseSqueeze(size), fmt.Sprintf("size %d: page %d offers 'next' but choosing it gives %s", size, k-1, pastEnd), k
	}
	var sections []string
	for i, out := range outs {
		sec, ok := rc.section(out, true, i == 0, i == k-1)
		if !ok {
			return "page-shape:" + pageKind(rc), fmt.Sprintf("size %d page %d/%d: %q", size, i, k, out), k
		}
		want := rc.expectedPage(sec, true, i == 0, i == k-1)
		if out != want {
			return "page-text-differs:" + pageKind(rc), fmt.Sprintf("size %d page %d of %d: got %q want %q", size, i, k, out, want), k
		}
		sections = append(sections, sec)
	}
	if got := strings.Join(sections, "\n"); got != value {
		return "sink-content:" + contentDiff(value, sections) + ":" + pageKind(rc), fmt.Sprintf("size %d: walking 'next' showed %q, content is %q (then: %s)", size, sections, value, pastEnd), k
	}
	c.Count("engine_walks_complete", 1)
	if k > 1 {
		c.Count("engine_multi_page_walks", 1)
	}
	// backwards: a second session goes to the last page and returns with the previous selector
	if k > 1 && rc.Prev != nil {
		var d2 app.Driver
		if drv == "long" {
			d2 = app.NewLongLived(a, cfg)
		} else {
			b2, _ := app.NewBackend(drv)
			defer b2.Cleanup()
			pr := app.NewPerRequest(a, cfg, b2)
			pr.SkipStoredRead = true
			d2 = pr
		}
		defer d2.Close()
		d2.Request([]byte(""))
		for i := 1; i < k; i++ {
			d2.Request([]byte("nx"))
		}
		for i := k - 2; i >= 0; i-- {
			o := d2.Request([]byte("pv"))
			c.Count("engine_requests", 1)
			if o.Panic != "" {
				return o.PanicSig + ":previous", fmt.Sprintf("size %d: 'previous' to page %d panics: %s", size, i, o.Panic), k
			}
			if o.Out != outs[i] {
				return "previous-page-differs:" + pageKind(rc), fmt.Sprintf("size %d: going back to page %d shows %q, going forward showed %q", size, i, o.Out, outs[i]), k
			}
		}
		o := d2.Request([]byte("pv"))
		c.Count("engine_requests", 1)
		if o.Panic != "" {
			return o.PanicSig + ":previous-on-first", "'previous' on the first page panics: " + o.Panic, k
		}
		if o.ExecErr == "" && o.FlushErr == "" && !strings.Contains(o.Out, "CATCHPAGE") {
			return "previous-on-first-page-answered:" + pageKind(rc), fmt.Sprintf("size %d: 'previous' on page 0 answered %q", size, o.Out), k
		}
		if o.ExecErr == "" && o.FlushErr == "" && !strings.Contains(o.Out, "invalid input: 'pv'") {
			return "previous-on-first-page-not-invalid-input:" + pageKind(rc), fmt.Sprintf("size %d: 'previous' on page 0 answered %q", size, o.Out), k
		}
		c.Count("engine_backward_walks", 1)
	}
	// revisit: the same session goes to another paginated node (with a different sink), browses it, comes back and
	// walks this node again; a renderer that lives as long as the engine must not carry anything over
	if k >= 1 {
		var d3 app.Driver
		if drv == "long" {
			d3 = app.NewLongLived(a, cfg)
		} else {
			b3, _ := app.NewBackend(drv)
			defer b3.Cleanup()
			pr := app.NewPerRequest(a, cfg, b3)
			pr.SkipStoredRead = true
			d3 = pr
		}
		defer d3.Close()
		d3.Request([]byte(""))
		if k > 1 {
			d3.Request([]byte("nx"))
			d3.Request([]byte("pv"))
		}
		og := d3.Request([]byte("go"))
		if og.Panic != "" {
			return og.PanicSig + ":other-node", "moving to the other paginated node panics: " + og.Panic, k
		}
		if og.ExecErr == "" && og.FlushErr == "" {
			d3.Request([]byte("nx"))
			d3.Request([]byte("pv"))
		}
		ob := d3.Request([]byte("bk"))
		c.Count("engine_requests", 6)
		if ob.Panic != "" {
			return ob.PanicSig + ":revisit", "coming back panics: " + ob.Panic, k
		}
		if ob.ExecErr == "" && og.ExecErr == "" {
			if ob.Out != outs[0] || ob.FlushErr != "" {
				return "revisit-page-differs:" + pageKind(rc), fmt.Sprintf("size %d: page 0 after visiting another paginated node: %s; on the first visit %q", size, ob.Brief(), outs[0]), k
			}
			for i := 1; i < k; i++ {
				o := d3.Request([]byte("nx"))
				c.Count("engine_requests", 1)
				if o.Out != outs[i] || o.FlushErr != "" || o.Panic != "" {
					return "revisit-page-differs:" + pageKind(rc), fmt.Sprintf("size %d: page %d after visiting another paginated node: %s; on the first visit %q", size, i, o.Brief(), outs[i]), k
				}
			}
			c.Count("engine_revisit_walks", 1)
		}
	}
	// writer failure: the client's writer fails once on some page and Flush is called again (a connection hiccup and a
	// retry); whatever the retry delivers is exactly that page or nothing, and the walk goes on as if nothing had happened
	if k >= 2 && drv == "long" {
		for _, failAt := range []int{1, k / 2, k - 1} {
			ll := app.NewLongLived(a, cfg)
			fa := failAt + 1 // request numbers are 1-based; page i is request i+1
			ll.FailFirstFlush = func(n int) bool { return n == fa }
			bad := ""
			for i := 0; i < k && bad == ""; i++ {
				in := "nx"
				if i == 0 {
					in = ""
				}
				o := ll.Request([]byte(in))
				c.Count("engine_requests", 1)
				switch {
				case o.Panic != "":
					bad = fmt.Sprintf("page %d: panic %s", i, o.Panic)
				case i == failAt && o.Out != "" && o.Out != outs[i]:
					bad = fmt.Sprintf("the writer failed once on page %d (of %d); the retried Flush delivers %q, the page is %q", i, k, o.Out, outs[i])
				case i != failAt && (o.Out != outs[i] || o.FlushErr != ""):
					bad = fmt.Sprintf("the writer failed once on page %d; page %d then is %s, without the failure %q", failAt, i, o.Brief(), outs[i])
				}
			}
			ll.Close()
			if bad != "" {
				return "flush-retry-page-differs:" + pageKind(rc), fmt.Sprintf("size %d: %s", size, bad), k
			}
			c.Count("engine_flush_retry_walks", 1)
		}
	}
	// language: a session that switches to another language after it has browsed this node must from then on see
	// exactly the pages of a session that had that language from the start (labels, and with them the page breaks,
	// differ from the first language)
	if k >= 1 && rc.Next != nil {
		mkd := func(cf app.Config) (app.Driver, func()) {
			if drv == "long" {
				d := app.NewLongLived(a, cf)
				return d, func() { d.Close() }
			}
			bx, _ := app.NewBackend(drv)
			pr := app.NewPerRequest(a, cf, bx)
			pr.SkipStoredRead = true
			return pr, func() { pr.Close(); bx.Cleanup() }
		}
		cfgN := cfg
		cfgN.Language = "nor"
		dn, closeN := mkd(cfgN)
		defer closeN()
		dl, closeL := mkd(cfg)
		defer closeL()
		dl.Request([]byte(""))
		if k > 1 {
			dl.Request([]byte("nx"))
		}
		ref := dn.Request([]byte(""))
		got := dl.Request([]byte("lg"))
		c.Count("engine_requests", 4)
		for page := 0; page < 200; page++ {
			if got.Panic != "" {
				return got.PanicSig + ":language-walk", "panic after a language switch: " + got.Panic, k
			}
			if got.Out != ref.Out || (got.FlushErr == "") != (ref.FlushErr == "") || (got.ExecErr == "") != (ref.ExecErr == "") {
				return "language-switch-page-differs:" + pageKind(rc), fmt.Sprintf("size %d: page %d after switching the session to Norwegian: %s; a session that is Norwegian from the start: %s", size, page, got.Brief(), ref.Brief()), k
			}
			if ref.ExecErr != "" || ref.FlushErr != "" || strings.Contains(ref.Out, "CATCHPAGE") {
				break
			}
			ref = dn.Request([]byte("nx"))
			got = dl.Request([]byte("nx"))
			c.Count("engine_requests", 2)
		}
		c.Count("engine_language_walks", 1)
	}
	return "", "", k
}
