// vcheck runs one property check against the go-vise tree it was built from (replace => /repo).
package main

import (
	"io"
	"log"

	"verif/harness/checks"
	"verif/harness/vk"
)

func main() {
	log.SetOutput(io.Discard) // asm.Parse logs through the stdlib logger
	vk.Main(checks.All())
}
