// vcheck runs one property check against the go-vise tree it was built from (replace => /repo).
package main

import (
	"io"
	"log"
	"os"

	"git.defalsify.org/vise.git/logging"

	"verif/harness/checks"
	"verif/harness/vk"
)

func main() {
	log.SetOutput(io.Discard) // asm.Parse logs through the stdlib logger
	if len(os.Args) > 1 && os.Args[1] == "C12CHILD" {
		checks.C12Child(os.Args[2:])
		return
	}
	if len(os.Args) > 1 && os.Args[1] == "C19SOLO" {
		checks.C19Solo(os.Args[2:])
		return
	}
	if os.Getenv("VERIF_TRACED_CHILD") != "" {
		// the traced build (-tags logtrace) formats every log line; nobody reads them
		logging.LogWriter = io.Discard
	}
	vk.Main(checks.All())
}
