// vcheck runs one property check against the go-vise tree it was built from (replace => /repo).
package main

import (
	"io"
	"log"
	"os"

	"verif/harness/checks"
	"verif/harness/vk"
)

func main() {
	log.SetOutput(io.Discard) // asm.Parse logs through the stdlib logger
	if len(os.Args) > 1 && os.Args[1] == "C12CHILD" {
		checks.C12Child(os.Args[2:])
		return
	}
	if len(os.Args) > 1 && os.Args[1] == "C19SOLO" {
		checks.C19Solo(os.Args[2:])
		return
	}
	vk.Main(checks.All())
}
