module verif/harness

go 1.22.0

require git.defalsify.org/vise.git v0.0.0

replace git.defalsify.org/vise.git => /repo
