#!/usr/bin/env python3
"""Apply a textual mutation to /repo, run the given checks (quick), restore. Usage:
   mutcheck.py <file> <old> <new> <check> [<check>...]    (old must occur exactly once)
Prints per check: DETECTED (exit 1 + VIOLATION) / missed (exit 0) / other."""
import subprocess, sys, os
f, old, new, checks = sys.argv[1], sys.argv[2], sys.argv[3], sys.argv[4:]
p = os.path.join('/repo', f)
s = open(p).read()
assert s.count(old) == 1, "old text occurs %d times" % s.count(old)
open(p, 'w').write(s.replace(old, new))
env = dict(os.environ, GOFLAGS='-mod=mod', GOPROXY='off', GOSUMDB='off', GOTOOLCHAIN='local')
try:
    b = subprocess.run('cd /repo && go build ./... 2>&1 | grep -v gdbm | head -5', shell=True, capture_output=True, text=True, env=env)
    for c in checks:
        r = subprocess.run(['/verif/run.sh', c, 'quick'], capture_output=True, text=True, env=dict(env, VERIF_OUT='/tmp/mutcheck-out'))
        sigs = [l.strip() for l in r.stdout.splitlines() if l.strip().startswith('sig=')]
        tag = 'DETECTED' if r.returncode == 1 else ('missed' if r.returncode == 0 else 'exit=%d' % r.returncode)
        print("%s %s %s" % (c, tag, ' '.join(sigs[:3])[:300]))
finally:
    open(p, 'w').write(s)
    subprocess.run('cd /repo && git status --short | head -3', shell=True)
