#!/usr/bin/env python3
# usage: uncovered.py <coverprofile> <file-suffix> [repo] — prints the source lines of statements never executed
import sys,collections
prof,suffix=sys.argv[1],sys.argv[2]; repo=sys.argv[3] if len(sys.argv)>3 else '/repo'
blocks=collections.defaultdict(int)
for l in open(prof):
    if l.startswith('mode:'): continue
    loc,n,c=l.rsplit(' ',2)
    f,r=loc.split(':')
    if not f.endswith(suffix): continue
    blocks[(f,r)]+=int(c)
files={}
for (f,r),c in sorted(blocks.items(), key=lambda x:(x[0][0], int(x[0][1].split('.')[0]))):
    if c: continue
    a,b=r.split(',')
    l0=int(a.split('.')[0]); l1=int(b.split('.')[0])
    path=repo+'/'+f.split('vise.git/')[1]
    src=files.setdefault(path, open(path).read().split('\n'))
    print(f"--- {path}:{l0}-{l1}")
    for i in range(l0,min(l1,l0+12)+1): print(f"  {i}: {src[i-1]}")
