#!/usr/bin/env python3
"""usage: seedreval.py [ID...]   (default: every directory of seeded/)
Mutation regression: for every kept seeded change, applies patch.diff to a scratch copy of the tree under test
(VP_RUN_REPO snapshot under `vp run --with-repo`, else /repo HEAD in a scratch worktree) and runs, at the quick tier,
every check that meta.json lists under caught_by; prints one line per (change, check): rc=1 expected.
Never touches /repo's working tree; evidence goes to a scratch directory."""
import json, os, subprocess, sys, shutil, tempfile
root = os.path.dirname(os.path.dirname(os.path.abspath(__file__)))
ids = sys.argv[1:] or sorted(os.listdir(os.path.join(root, 'seeded')))
base = os.environ.get('VP_RUN_REPO') or '/repo'
scratch = tempfile.mkdtemp(prefix='reval-', dir='/tmp')
tree = os.path.join(scratch, 'tree')
subprocess.run(['git', '-C', base, 'worktree', 'add', '-q', '--detach', tree, 'HEAD'], check=True)
bad = 0
try:
    for i in ids:
        d = os.path.join(root, 'seeded', i)
        mp = os.path.join(d, 'meta.json')
        if not os.path.exists(mp):
            print(f'{i}: no meta.json'); continue
        meta = json.load(open(mp))
        checks = meta.get('caught_by') or []
        if not checks:
            print(f'{i}: not caught by any check ({meta.get("status", meta.get("first_result", ""))[:80]})'); continue
        subprocess.run(['git', '-C', tree, 'checkout', '-q', '--', '.'])
        subprocess.run(['git', '-C', tree, 'clean', '-qfd'])
        r = subprocess.run(['git', '-C', tree, 'apply', os.path.join(d, 'patch.diff')], capture_output=True, text=True)
        if r.returncode != 0:
            print(f'{i}: PATCH DOES NOT APPLY {r.stderr.strip()[:120]}'); bad += 1; continue
        for c in checks:
            env = dict(os.environ, VERIF_REPO=tree, VERIF_OUT=os.path.join(scratch, 'out'))
            r = subprocess.run([os.path.join(root, 'run.sh'), c, 'quick'], capture_output=True, text=True, env=env)
            sigs = [l.strip() for l in r.stdout.splitlines() if 'sig=' in l][:2]
            ok = r.returncode == 1
            bad += 0 if ok else 1
            print(f'{i}: {c} rc={r.returncode} {"caught" if ok else "NOT CAUGHT"} {" ".join(sigs)[:160]}', flush=True)
finally:
    subprocess.run(['git', '-C', base, 'worktree', 'remove', '--force', tree])
    subprocess.run(['git', '-C', base, 'worktree', 'prune'])
    shutil.rmtree(scratch, ignore_errors=True)
print(f'DONE not-caught-or-broken={bad}')
