#!/bin/bash
# usage: seedeval.sh <ID> <agent-worktree> <check> [<check>...]
# 1. confirms the seeded change in a fresh scratch worktree (suite passes, demo fails with / passes without)
# 2. copies it to /verif/seeded/<ID>/   3. applies it to /repo, runs the checks (quick) with VERIF_OUT redirected, restores /repo
ID="$1"; WT="$2"; shift 2
export GOFLAGS=-mod=mod GOPROXY=off GOSUMDB=off GOTOOLCHAIN=local
SCR=/tmp/wt/verify-$ID
rm -rf "$SCR"; git -C /repo worktree prune; git -C /repo worktree add -q --detach "$SCR" HEAD || exit 3
cd "$SCR"
git apply "$WT/mutant/patch.diff" || { echo "PATCH DOES NOT APPLY"; exit 3; }
DEMOS=$(cd "$WT" && git status --short | grep -v '^ M' | awk '{print $2}' | grep '_test.go$' | grep -v '^mutant/')
for f in $DEMOS; do mkdir -p "$(dirname "$f")"; cp "$WT/$f" "$f"; done
PKGS=$(for f in $DEMOS; do echo "./$(dirname $f)/"; done | sort -u | tr '\n' ' ')
echo "demo files: $DEMOS ; packages: $PKGS"
SUITE=$(go test -vet=off -count=1 -skip TestSeeded ./... 2>&1 | grep "^--- FAIL\|^FAIL.*vise.git/\|^panic" | grep -v "gdbm\|dbconvert" | head -5 | tr '\n' ' ')
echo "suite-with-change: ${SUITE:-PASS}"
go test -vet=off -count=1 -run TestSeeded $RACEFLAG $PKGS > /tmp/seed-demo-with.txt 2>&1; RCW=$?
echo "demo-with-change: rc=$RCW (expected non-zero) $(grep -c '^--- FAIL' /tmp/seed-demo-with.txt) failing tests"
git apply -R "$WT/mutant/patch.diff"
go test -vet=off -count=1 -run TestSeeded $RACEFLAG $PKGS > /tmp/seed-demo-without.txt 2>&1; RCO=$?
echo "demo-without-change: rc=$RCO (expected 0)"
mkdir -p /verif/seeded/$ID
cp "$WT/mutant/patch.diff" /verif/seeded/$ID/patch.diff
for f in $DEMOS; do mkdir -p /verif/seeded/$ID/demo/$(dirname $f); cp "$WT/$f" /verif/seeded/$ID/demo/$f.txt; done
cp "$WT/mutant/meta.json" /verif/seeded/$ID/meta.agent.json 2>/dev/null
cd /; git -C /repo worktree remove --force "$SCR"
# run the checks against /repo with the change applied
cd /repo && git status --short | grep -q . && { echo "/repo not clean"; exit 3; }
git -C /repo apply /verif/seeded/$ID/patch.diff || exit 3
RES=""
for c in "$@"; do
  out=$(VERIF_OUT=/tmp/seedout-$ID /verif/run.sh $c quick 2>&1); rc=$?
  sigs=$(echo "$out" | grep 'sig=' | grep -v KNOWN-FINDING | head -3 | tr -s ' ' | tr '\n' ';' | cut -c1-300)
  echo "CHECK $c rc=$rc $sigs"
  RES="$RES $c:rc=$rc"
done
git -C /repo checkout -- . ; git -C /repo status --short | head -3
echo "RESULT $ID suite=${SUITE:-PASS} demo_with=$RCW demo_without=$RCO checks:$RES"
