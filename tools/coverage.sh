#!/bin/bash
# usage: tools/coverage.sh [tier] — runs every check's workload with the library instrumented for statement
# coverage (go build -cover) and lists what the workloads never reach. A diagnostic for workload reach, not a check:
# it writes nothing under evidence/ (VERIF_OUT is redirected).
set -u
TIER="${1:-quick}"
export GOFLAGS=-mod=mod GOPROXY=off GOSUMDB=off GOTOOLCHAIN=local CGO_ENABLED=1
export VERIF_DIR="$(cd "$(dirname "$0")/.." && pwd)"
W="$(mktemp -d /tmp/vcov-XXXXXX)"; trap 'rm -rf "$W"' EXIT
export VERIF_REPO="${VERIF_REPO:-/repo}"
cd "$VERIF_DIR/harness" || exit 3
sed "s#=> /repo#=> $VERIF_REPO#" go.mod > "$W/go.mod"
cat "$VERIF_REPO/go.sum" go.sum.extra 2>/dev/null | sort -u > "$W/go.sum"
PK=git.defalsify.org/vise.git
go build -modfile="$W/go.mod" -cover -coverpkg=$PK/asm,$PK/cache,$PK/db,$PK/db/fs,$PK/db/mem,$PK/db/postgres,$PK/engine,$PK/lang,$PK/persist,$PK/render,$PK/resource,$PK/state,$PK/vm,$PK/logging,verif/harness/cmd/vcheck \
   -tags "verif" -o "$W/vcheck" ./cmd/vcheck || exit 2
export VERIF_MODFILE="$W/go.mod" VERIF_OUT="$W/out" GOCOVERDIR="$W/cov"
mkdir -p "$GOCOVERDIR" "$VERIF_OUT"
cd "$VERIF_DIR"
for id in ${CHECKS:-C01 C02 C03 C04 C05 C06 C07 C08 C09 C10 C11 C12 C13 C14 C15 C16 C17 C18 C19 C20}; do
  "$W/vcheck" "$id" --tier "$TIER" > "$W/$id.log" 2>&1; rc=$?; echo "$id rc=$rc"; [ $rc -ne 0 ] && grep -v "^KNOWN" "$W/$id.log" | tail -5 | cut -c1-300
done
go tool covdata textfmt -i="$GOCOVERDIR" -o "${COVOUT:-/tmp/vcov.txt}"
go tool covdata percent -i="$GOCOVERDIR"
