#!/bin/bash
# usage: [SWEEP_IDS='C01 C07'] sweep.sh <tier> <seed>...   runs every check of MANIFEST.json (or the named ones) and prints one line per (check, seed)
TIER="$1"; shift
cd "$(dirname "$0")/.."
# under `vp run --with-repo` the snapshot of /repo HEAD is used, so that edits to /repo do not disturb the sweep
[ -n "$VP_RUN_REPO" ] && export VERIF_REPO="$VP_RUN_REPO"
IDS=${SWEEP_IDS:-$(python3 -c "import json;print(' '.join(c['property_id'] for c in json.load(open('MANIFEST.json'))['checks']))")}
for seed in "$@"; do
  for id in $IDS; do
    t0=$(date +%s)
    out=$(VERIF_SEED=$seed ./run.sh $id $TIER 2>&1); rc=$?
    t1=$(date +%s)
    echo "seed=$seed $id rc=$rc wall=$((t1-t0))s $(echo "$out" | grep -c '^KNOWN-FINDING') known; $(echo "$out" | grep 'VIOLATION\|INCONCLUSIVE\|sig=' | head -4 | tr '\n' ' ' | cut -c1-400)"
  done
done
