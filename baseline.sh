#!/bin/bash
# Runs the repository's pinned test suite with the verif guard OFF and compares with BASELINE.json.
export GOFLAGS=-mod=mod GOPROXY=off GOSUMDB=off GOTOOLCHAIN=local
cd /repo || exit 3
OUT="$(mktemp /tmp/baseline-XXXXXX.json)"
# the repository's tests leave their temporary directories behind: give them a scratch TMPDIR that is removed afterwards
SCRATCH="$(mktemp -d /tmp/baseline-tmp-XXXXXX)"
trap 'rm -rf "$OUT" "$SCRATCH"' EXIT
export TMPDIR="$SCRATCH"
go test -json -vet=off -count=1 -timeout 25m ./... > "$OUT" 2>/dev/null
python3 - "$OUT" <<'PY'
import json,sys
base=json.load(open('/root/.vp/BASELINE.json'))
want=set(base['stable_pass'])
res={}
for l in open(sys.argv[1]):
    try: e=json.loads(l)
    except Exception: continue
    if e.get('Test') and e.get('Action') in ('pass','fail','skip'):
        res[e['Package']+'::'+e['Test']]=e['Action']
missing=[t for t in sorted(want) if res.get(t)!='pass']
print("baseline tests: %d expected, %d passing, %d not passing"%(len(want),len(want)-len(missing),len(missing)))
for t in missing[:20]: print("  NOT PASSING:",t,res.get(t))
sys.exit(1 if missing else 0)
PY
