#!/bin/bash
# Offline setup: warm the Go build cache for the harness (normal and race-enabled builds).
export GOFLAGS=-mod=mod GOPROXY=off GOSUMDB=off GOTOOLCHAIN=local CGO_ENABLED=1
cd /verif/harness || exit 1
cat /repo/go.sum go.sum.extra 2>/dev/null | sort -u > go.sum
T="$(mktemp -d /tmp/vsetup-XXXXXX)"; trap 'rm -rf "$T"' EXIT
go build -tags verif -o "$T/vcheck" ./cmd/vcheck || exit 1
go build -race -tags "verif logtrace" -o "$T/vcheck-race" ./cmd/vcheck || exit 1   # C19
go build -tags "verif logtrace" -o "$T/vcheck-trace" ./cmd/vcheck || exit 1        # C20's traced-build leg
(cd /repo && go build -o "$T/asm" ./dev/asm && go build -o "$T/disasm" ./dev/disasm) || exit 1   # command legs of C15, C16
echo setup ok
