#!/bin/bash
# usage: run.sh <Cxx> [quick|thorough] [--replay file]
# Builds the harness against /repo's current working tree (build tag verif) and runs one check.
set -u
ID="${1:?property id}"; shift
TIER="${1:-${VERIF_TIER:-quick}}"; [ $# -gt 0 ] && shift
export GOFLAGS=-mod=mod GOPROXY=off GOSUMDB=off GOTOOLCHAIN=local CGO_ENABLED=1
export VERIF_DIR="$(cd "$(dirname "$0")" && pwd)"
BIN="$(mktemp -d /tmp/vcheck-bin-XXXXXX)"
trap 'rm -rf "$BIN"' EXIT
cd "$VERIF_DIR/harness" || exit 3
# the tree under test: /repo's working tree, unless VERIF_REPO points at another checkout (background sweeps on a snapshot)
export VERIF_REPO="${VERIF_REPO:-/repo}"
sed "s#=> /repo#=> $VERIF_REPO#" go.mod > "$BIN/go.mod"
cat "$VERIF_REPO/go.sum" go.sum.extra 2>/dev/null | sort -u > "$BIN/go.sum"
TAGS="verif"
RACE=""
case "$ID" in
  C19) RACE="-race"; TAGS="verif logtrace" ;;
esac
if ! go build -modfile="$BIN/go.mod" $RACE -tags "$TAGS" -o "$BIN/vcheck" ./cmd/vcheck > "$BIN/build.log" 2>&1; then
  cat "$BIN/build.log"
  echo "INCONCLUSIVE property=$ID reason=harness does not build against the current /repo tree"
  exit 2
fi
export VERIF_MODFILE="$BIN/go.mod"
cd "$VERIF_DIR"
"$BIN/vcheck" "$ID" --tier "$TIER" "$@"
exit $?
